#!/bin/bash
# Builds the overlay interpreter: the repository's own /venv + z3-solver from the offline wheelhouse.
set -e
HERE="$(cd "$(dirname "${BASH_SOURCE[0]}")" && pwd)"
V="$HERE/.venv"
if [ -x "$V/bin/python" ] && "$V/bin/python" -c "import z3, conductor, jsonschema" 2>/dev/null; then exit 0; fi
exec 9>"$HERE/.venv.lock"; flock 9
if [ -x "$V/bin/python" ] && "$V/bin/python" -c "import z3, conductor, jsonschema" 2>/dev/null; then exit 0; fi
rm -rf "$V"
/venv/bin/python -m venv "$V"
SP="$("$V/bin/python" -c 'import sysconfig; print(sysconfig.get_paths()["purelib"])')"
echo "import site; site.addsitedir('/venv/lib/python3.12/site-packages')" > "$SP/_overlay.pth"
PIP_NO_INDEX=1 "$V/bin/pip" install -q --no-index --find-links /opt/veriftools/wheels z3-solver jsonschema
"$V/bin/python" -c "import z3, conductor, jsonschema"
