"""Inductive-step harnesses for the executor: instead of exploring histories, the
pre-state is symbolic - an arbitrary executor state satisfying the
representation invariant - one real step is executed (`_launch_ops_if_able`
or `_wait_for_next_inflight_op`), and invariant + safety are asserted
afterwards.  One inductive step covers runs of any length and graphs of any
size (the number of slots is bounded by the explicit slot list).

The pre-state is written into the executor's private fields; if a refactoring
removes them the space reports itself as stale (it does not fail the check:
the bounded spaces still decide the property).
"""
import itertools

from .symx import Inconclusive


class Stale(Exception):
    pass


def build(g, max_slots=4, max_ready=3):
    from conductor.execution.executor import Executor
    from conductor.execution.handle import OperationExecutionHandle
    from conductor.execution.operation_state import OperationState
    from conductor.execution.ops.operation import Operation
    from conductor.errors import TaskNonZeroExit

    log = []

    class FakeOp(Operation):
        def __init__(self, name, par, state=OperationState.QUEUED):
            super().__init__(state)
            self.name = name
            self._par = par

        @property
        def parallelizable(self):
            return self._par

        sync = False

        def start_execution(self, ctx, slot):
            ex = ctx["executor"]
            log.append({"op": self, "slot": slot, "inflight_before": list(ctx["inflight"](ex))})
            if self.sync:
                return OperationExecutionHandle.from_sync_execution()
            h = OperationExecutionHandle.from_async_process(pid=ctx["next_pid"]())
            return h

        def finish_execution(self, handle, ctx):
            if handle.returncode != 0:
                raise TaskNonZeroExit(task_identifier=self.name, code=handle.returncode)

        def __repr__(self):
            return "<%s%s>" % (self.name, " par" if self._par else "")

    J = g.choose("J", max_slots) + 1
    ex = Executor(J)
    for attr in ("_available_slots", "_running_parallel", "_ready_to_run", "_inflight_ops", "_slots"):
        if not hasattr(ex, attr):
            raise Stale("Executor has no attribute %s" % attr)
    inf = ex._inflight_ops
    rq = ex._ready_to_run
    for obj, attr in ((inf, "_processes"), (rq, "_parallel_ops"), (rq, "_sequential_ops")):
        if not hasattr(obj, attr):
            raise Stale("%s has no attribute %s" % (type(obj).__name__, attr))
    # ---- in-flight operations
    m = g.choose("m", J + 1)
    if m >= 2:
        pars = [True] * m
    elif m == 1:
        pars = [g.flag("inflight_par")]
    else:
        pars = []
    ops = [FakeOp("f%d" % i, pars[i], OperationState.QUEUED) for i in range(m)]
    slotted = [i for i in range(m) if pars[i] and J > 1]
    assigns = list(itertools.permutations(range(J), len(slotted)))
    assign = assigns[g.choose("slots", len(assigns))] if len(assigns) > 1 else (assigns[0] if assigns else ())
    used = set(assign)
    free = [s for s in range(J) if s not in used]
    perms = list(itertools.permutations(free))
    avail = list(perms[g.choose("free_order", len(perms))] if len(perms) > 1 else perms[0])
    pid = [7000]

    def next_pid():
        pid[0] += 1
        return pid[0]
    for i, op in enumerate(ops):
        h = OperationExecutionHandle.from_async_process(pid=next_pid())
        h.slot = assign[slotted.index(i)] if i in slotted else None
        inf._processes[h.pid] = (h, op)
    ex._available_slots = avail
    rp = g.flag("running_parallel")
    if any(not p for p in pars) and rp:
        g.assume(False)          # representation invariant: a sequential op in flight implies running_parallel is False
    ex._running_parallel = rp
    # ---- ready queue
    r = g.choose("ready", max_ready + 1)
    ready = []
    for i in range(r):
        op = FakeOp("r%d" % i, g.flag("ready_par%d" % i))
        # a synchronous operation (like a group or combine step): finishes without a process
        op.sync = g.flag("ready_sync%d" % i) if i == 0 else False
        if g.flag("ready_dep_failed%d" % i):
            dep = FakeOp("d%d" % i, False, OperationState.FAILED)
            op.add_exe_dep(dep)
        ready.append(op)
        rq.enqueue_op(op)
    def inflight(e):
        out = [(h.slot, o) for h, o in e._inflight_ops._processes.values()]
        out += [(h.slot, o) for h, o in getattr(e._inflight_ops, "_sync_ops", [])]
        return out
    ctx = {"executor": ex, "inflight": inflight, "next_pid": next_pid}
    return ex, ctx, log, ops, ready, J, FakeOp


def invariant(g, ex, J, where, D):
    """Representation invariant of the executor (and the safety facts it implies)."""
    procs = list(ex._inflight_ops._processes.values()) + list(getattr(ex._inflight_ops, "_sync_ops", []))
    slots = [h.slot for h, _ in procs if h.slot is not None]
    g.require(len(procs) <= J, "par:more-than-jobs-running", "%s: %d operations in flight with %d slots; %s" % (where, len(procs), J, D))
    g.require(len(set(slots)) == len(slots), "par:duplicate-slot", "%s: in-flight slots %s; %s" % (where, slots, D))
    g.require(all(0 <= s < J for s in slots), "par:slot-missing-or-out-of-range", "%s: slots %s with %d slots; %s" % (where, slots, J, D))
    g.require(sorted(slots + list(ex._available_slots)) == list(range(J)), "par:slot-accounting",
              "%s: in-flight slots %s + free list %s is not a partition of 0..%d; %s" % (where, slots, list(ex._available_slots), J - 1, D))
    for h, o in procs:
        g.require((h.slot is not None) == (o.parallelizable and J > 1), "par:slot-missing-or-out-of-range",
                  "%s: %r has slot %r (jobs=%d); %s" % (where, o, h.slot, J, D))
    if len(procs) >= 2:
        g.require(all(o.parallelizable for _, o in procs), "par:sequential-task-ran-concurrently",
                  "%s: in flight together: %s; %s" % (where, [o for _, o in procs], D))
    if any(not o.parallelizable for _, o in procs):
        g.require(not ex._running_parallel, "par:invariant-running-parallel", "%s: sequential op in flight but running_parallel is set; %s" % (where, D))


def launch_step(g):
    try:
        ex, ctx, log, ops, ready, J, FakeOp = build(g)
    except Stale as st:
        return {"nontrivial": False, "sample": {"stale": str(st)}}
    D = "slots=%d in_flight=%s free=%s running_parallel=%s ready=%s" % (
        J, [(h.slot, o) for h, o in ex._inflight_ops._processes.values()], list(ex._available_slots), ex._running_parallel,
        [(o, "dep-failed" if o.exe_deps else "") for o in ready])
    invariant(g, ex, J, "pre-state (harness)", D)
    ex._launch_ops_if_able(ctx, False)
    # synchronous operations complete at the next wait; drain them so that their slots come back
    guard = 0
    while getattr(ex._inflight_ops, "_sync_ops", []) and guard < 8:
        ex._wait_for_next_inflight_op(ctx, False)
        ex._launch_ops_if_able(ctx, False)
        guard += 1
    for ev in log:
        before = ev["inflight_before"]
        op = ev["op"]
        g.require(len(before) + 1 <= J, "par:more-than-jobs-running", "launched %r with %d already in flight (%d slots); %s" % (op, len(before), J, D))
        if before:
            g.require(op.parallelizable and all(o.parallelizable for _, o in before), "par:sequential-task-ran-concurrently",
                      "launched %r while %s were in flight; %s" % (op, [o for _, o in before], D))
        g.require((ev["slot"] is not None) == (op.parallelizable and J > 1), "par:slot-missing-or-out-of-range",
                  "%r launched with slot %r (jobs=%d); %s" % (op, ev["slot"], J, D))
        g.require(ev["slot"] is None or ev["slot"] not in [s for s, _ in before], "par:duplicate-slot",
                  "%r launched in slot %r, in use by %s; %s" % (op, ev["slot"], before, D))
    invariant(g, ex, J, "after _launch_ops_if_able", D)
    if log:
        g.goal("inductive step launches an operation")
    if len(log) >= 2:
        g.goal("inductive step launches two operations")
    return {"nontrivial": bool(log), "sample": {"pre": D, "launched": [repr(e["op"]) + "@%s" % e["slot"] for e in log]}}


def wait_step(g):
    from conductor.utils.sigchld import SigchldHelper
    try:
        ex, ctx, log, ops, ready, J, FakeOp = build(g, max_ready=0)
    except Stale as st:
        return {"nontrivial": False, "sample": {"stale": str(st)}}
    procs = list(ex._inflight_ops._processes.items())
    if not procs:
        return {"nontrivial": False, "sample": None}
    which = g.choose("finishes", len(procs))
    rc = g.fresh_int("rc", 0, 255)
    pid, (h, op) = procs[which]
    # dependents of the finishing op
    nd = g.choose("dependents", 2)
    dependents = []
    for i in range(nd):
        d = FakeOp("w%d" % i, g.flag("dep_par%d" % i))
        d.add_exe_dep(op)
        op.add_dep_of(d)
        others = g.choose("other_unfinished%d" % i, 2)
        for j in range(others):
            o2 = FakeOp("o%d_%d" % (i, j), False)
            d.add_exe_dep(o2)
        d._waiting_on = 1 + others
        dependents.append((d, others))
    D = "slots=%d in_flight=%s free=%s finishing=%r rc=%s dependents=%s" % (
        J, [(hh.slot, o) for _, (hh, o) in procs], list(ex._available_slots), op, rc, [(d, "waits for %d more" % k) for d, k in dependents])
    helper = SigchldHelper.instance()
    orig = helper.wait
    helper.wait = lambda: (pid, rc)
    try:
        ex._wait_for_next_inflight_op(ctx, False)
    finally:
        helper.wait = orig
    invariant(g, ex, J, "after _wait_for_next_inflight_op", D)
    queued = list(ex._ready_to_run._parallel_ops) + list(ex._ready_to_run._sequential_ops)
    for d, others in dependents:
        g.require((d in queued) == (others == 0), "order:enqueued-iff-all-dependencies-finished",
                  "%r %s the ready queue although %d of its dependencies are unfinished; %s" % (d, "is in" if d in queued else "is not in", others, D))
    g.require(h.slot is None or h.slot in ex._available_slots, "par:slot-accounting", "slot %r of the finished op was not returned; %s" % (h.slot, D))
    g.goal("inductive step completes an operation")
    return {"nontrivial": True, "sample": {"pre": D}}
