import sys
import traceback

from vlib.runner import main

if __name__ == "__main__":
    try:
        rc = main()
    except SystemExit as ex:
        rc = ex.code if isinstance(ex.code, int) else 2
        if rc == 1:
            rc = 2          # exit status 1 is reserved for a reproduced violation
    except BaseException:
        traceback.print_exc()
        print("INCONCLUSIVE: harness error (see traceback)")
        rc = 2
    sys.exit(rc)
