"""Common driver: explores the spaces a property module declares (sharded over
worker processes), runs canaries, replays counterexamples concretely, matches
them against known findings, writes the evidence file, sets the exit status.

Exit status: 0 held on everything explored (KNOWN-FINDING lines possible),
1 VIOLATION (reproduced), 2 inconclusive / harness error.
"""
import collections
import hashlib
import importlib
import inspect
import json
import multiprocessing as mp
import os
import pathlib
import random
import shutil
import sys
import tempfile
import textwrap
import time
import traceback

from . import symx
from .symx import Engine, ConcreteEngine, Violation, Inconclusive

VERIF = pathlib.Path(__file__).resolve().parent.parent
REPO = pathlib.Path(os.environ.get("VERIF_REPO") or "/repo")
_perf = time.perf_counter


class Space:
    """One exploration space: ``fn(g)`` is the harness (run once per path)."""

    def __init__(self, name, fn, bounds, depth=6, tiers=("quick", "thorough"), outside=None,
                 nproc=None, goals=(), preset=None):
        self.preset = preset
        self.name = name
        self.fn = fn
        self.bounds = bounds
        self.depth = depth
        self.tiers = tiers
        self.outside = outside or []
        self.nproc = nproc
        self.goals = list(goals)


class Lemma:
    """A direct solver obligation (no path exploration): fn() -> dict with
    keys obligations, discharged, queries, solver_s, violations[list of
    (sig, detail, witness)], samples, inconclusive[list]."""

    def __init__(self, name, fn, bounds, tiers=("quick", "thorough")):
        self.name = name
        self.fn = fn
        self.bounds = bounds
        self.tiers = tiers


class Canary:
    """An in-memory mutation that must be reported as a violation."""

    def __init__(self, name, patch, space=None, max_paths=1500, lemma=None, preset=None):
        self.preset = preset
        self.name = name
        self.patch = patch        # context manager factory; raises StaleCanary if anchor is gone
        self.space = space        # name of the space it is run in (default: first)
        self.max_paths = max_paths
        self.lemma = lemma


class StaleCanary(Exception):
    pass


# ------------------------------------------------------------------ patch helpers

class rewrite:
    """Re-exec one function of a loaded module with a textual substitution that
    must match exactly once (in-memory only; /repo is never touched)."""

    def __init__(self, module_name, qualname, old, new, count=1):
        self.module_name, self.qualname, self.old, self.new, self.count = module_name, qualname, old, new, count

    def __enter__(self):
        mod = importlib.import_module(self.module_name)
        parts = self.qualname.split(".")
        owner = mod
        for p in parts[:-1]:
            owner = getattr(owner, p, None)
            if owner is None:
                raise StaleCanary(self.qualname)
        raw = owner.__dict__.get(parts[-1]) if hasattr(owner, "__dict__") else None
        if raw is None:
            raise StaleCanary(self.qualname)
        kind = None
        fn = raw
        if isinstance(raw, staticmethod):
            kind, fn = staticmethod, raw.__func__
        elif isinstance(raw, classmethod):
            kind, fn = classmethod, raw.__func__
        elif isinstance(raw, property):
            kind, fn = property, raw.fget
        wrapper = None
        if getattr(fn, "__qualname__", "").startswith("cli_command.<locals>") and fn.__closure__:
            # a CLI entry point: mutate the function wrapped by @cli_command
            from conductor.utils.user_code import cli_command
            wrapper = cli_command
            fn = [c.cell_contents for c in fn.__closure__ if callable(c.cell_contents)][0]
        try:
            src = textwrap.dedent(inspect.getsource(fn))
        except (OSError, TypeError):
            raise StaleCanary(self.qualname)
        if src.count(self.old) != self.count:
            raise StaleCanary("%s: anchor %r occurs %d times" % (self.qualname, self.old, src.count(self.old)))
        src = src.replace(self.old, self.new)
        lines = src.splitlines()
        while lines and lines[0].lstrip().startswith("@"):
            lines.pop(0)
        ns = {}
        exec(compile("\n".join(lines) + "\n", "<canary %s>" % self.qualname, "exec"), mod.__dict__, ns)
        newfn = ns[fn.__name__]
        if wrapper is not None:
            newfn = wrapper(newfn)
        if kind is property:
            newobj = property(newfn, raw.fset, raw.fdel)
        elif kind is not None:
            newobj = kind(newfn)
        else:
            newobj = newfn
        self.owner, self.attr, self.raw = owner, parts[-1], raw
        setattr(owner, parts[-1], newobj)
        return self

    def __exit__(self, *a):
        setattr(self.owner, self.attr, self.raw)
        return False


class setattr_patch:
    def __init__(self, module_name, qualname, make):
        self.module_name, self.qualname, self.make = module_name, qualname, make

    def __enter__(self):
        mod = importlib.import_module(self.module_name)
        parts = self.qualname.split(".")
        owner = mod
        for p in parts[:-1]:
            owner = getattr(owner, p, None)
            if owner is None:
                raise StaleCanary(self.qualname)
        if parts[-1] not in getattr(owner, "__dict__", {}):
            raise StaleCanary(self.qualname)
        self.owner, self.attr = owner, parts[-1]
        self.raw = owner.__dict__[parts[-1]]
        setattr(owner, parts[-1], self.make(self.raw))
        return self

    def __exit__(self, *a):
        setattr(self.owner, self.attr, self.raw)
        return False


class multi:
    def __init__(self, *patches):
        self.patches = patches

    def __enter__(self):
        self.entered = []
        try:
            for p in self.patches:
                p.__enter__()
                self.entered.append(p)
        except BaseException:
            for p in reversed(self.entered):
                p.__exit__(None, None, None)
            raise
        return self

    def __exit__(self, *a):
        for p in reversed(self.entered):
            p.__exit__(None, None, None)
        return False


# ------------------------------------------------------------------ known findings

def load_known():
    known, fixed = [], []
    p = VERIF / "known_findings.txt"
    if p.exists():
        for line in p.read_text().splitlines():
            line = line.strip()
            if not line or line.startswith("#"):
                continue
            kind, _, rest = line.partition(":")
            toks = rest.split()
            d = {"text": rest.strip()}
            for t in toks:
                if t.startswith("property="):
                    d["property"] = t[len("property="):]
                elif t.startswith("sig="):
                    d["sig"] = t[len("sig="):]
            (known if kind.strip() == "known" else fixed).append(d)
    return known, fixed


# ------------------------------------------------------------------ worker side

_CTX = {}


def _jsonable(x, depth=0):
    if depth > 6:
        return repr(x)
    if isinstance(x, (str, int, float, bool)) or x is None:
        return x
    if isinstance(x, bytes):
        return x[:64].hex()
    if isinstance(x, dict):
        return {str(k): _jsonable(v, depth + 1) for k, v in list(x.items())[:60]}
    if isinstance(x, (list, tuple, set, frozenset)):
        return [_jsonable(v, depth + 1) for v in list(x)[:60]]
    return repr(x)


def _explore_unit(space, fixed, max_depth=None, max_paths=None, stop_on_violation=False, scratch=None, preset=None):
    if preset is None:
        preset = space.preset
    elif space.preset:
        preset = dict(space.preset, **preset)
    g = Engine(fixed=fixed, preset=preset)
    out = {"goals": collections.Counter(), "violations": [], "samples": [], "nontrivial": 0,
           "keys": set(), "inconclusive": [], "frontier": [], "exhausted": False, "stale": None}
    per_sig = collections.Counter()

    def on_path(g, result, violation):
        for gl in g.goals:
            out["goals"][gl] += 1
        if violation is not None:
            per_sig[violation.sig] += 1
            if per_sig[violation.sig] <= 3:
                out["violations"].append({"sig": violation.sig, "detail": violation.detail,
                                          "values": violation.values, "space": space.name})
            if stop_on_violation:
                return True
            return None
        if isinstance(result, dict):
            if isinstance(result.get("sample"), dict) and result["sample"].get("stale"):
                out["stale"] = result["sample"]["stale"]
            if result.get("nontrivial"):
                out["nontrivial"] += 1
            k = result.get("key")
            if k is not None:
                out["keys"].add(k)
            if len(out["samples"]) < 2 and result.get("sample") is not None:
                out["samples"].append(_jsonable(result["sample"]))
        return None

    try:
        frontier, exhausted = g.explore(space.fn, on_path, max_depth=max_depth, max_paths=max_paths)
        out["frontier"] = frontier
        out["exhausted"] = exhausted
    except Inconclusive as ex:
        out["inconclusive"].append("%s: %s (decisions %s)" % (type(ex).__name__, ex, g.outcomes()[:40]))
    except Exception as ex:          # harness error
        out["inconclusive"].append("harness error: %s\n%s" % (ex, traceback.format_exc(limit=12)))
    out["stats"] = g.stats.as_dict()
    out["keys"] = list(out["keys"])[:5000]
    out["nkeys"] = len(out["keys"])
    return out


def _work(unit):
    kind = unit[0]
    mod = _CTX["module"]
    try:
        if kind == "shard":
            _, si, prefix = unit
            return ("shard", si, _explore_unit(_CTX["spaces"][si], prefix))
        if kind == "canary":
            _, ci = unit
            can = _CTX["canaries"][ci]
            t0 = _perf()
            try:
                if can.lemma is not None:
                    with can.patch():
                        r = can.lemma()
                    killed = bool(r.get("violations"))
                    return ("canary", ci, {"name": can.name, "state": "killed" if killed else "NOT KILLED",
                                           "by": [v[0] for v in r.get("violations", [])][:3], "wall_s": round(_perf() - t0, 2)})
                space = _CTX["space_by_name"][can.space] if can.space else _CTX["all_spaces"][0]
                with can.patch():
                    r = _explore_unit(space, None, max_paths=can.max_paths, stop_on_violation=True, preset=can.preset)
                killed = bool(r["violations"])
                # a canary that crashes the harness differently from a violation does not count
                return ("canary", ci, {"name": can.name, "state": "killed" if killed else "NOT KILLED",
                                       "by": [v["sig"] for v in r["violations"]][:3], "paths": r["stats"]["paths"],
                                       "notes": r["inconclusive"][:1], "wall_s": round(_perf() - t0, 2)})
            except StaleCanary as ex:
                return ("canary", ci, {"name": can.name, "state": "stale", "notes": [str(ex)]})
        if kind == "lemma":
            _, li = unit
            lem = _CTX["lemmas"][li]
            t0 = _perf()
            r = lem.fn()
            r["wall_s"] = round(_perf() - t0, 2)
            return ("lemma", li, r)
    except Inconclusive as ex:
        return ("error", unit[:2], "inconclusive: %s" % ex)
    except BaseException as ex:
        return ("error", unit[:2], "harness error: %s\n%s" % (ex, traceback.format_exc(limit=12)))


def _die_with_parent():
    """Workers must not outlive the check (e.g. when it is killed by a timeout): PR_SET_PDEATHSIG = SIGKILL."""
    try:
        import ctypes
        ctypes.CDLL("libc.so.6", use_errno=True).prctl(1, 9, 0, 0, 0)
    except Exception:
        pass


def _worker_loop(wid, tasks, results, per_child):
    _die_with_parent()
    done = 0
    while done < per_child:
        item = tasks.get()
        if item is None:
            break
        idx, unit = item
        results.put(("start", wid, idx, None))
        try:
            r = _work(unit)
        except BaseException as ex:      # never let a worker die silently
            r = ("error", unit[:2], "worker exception: %r" % ex)
        results.put(("done", wid, idx, r))
        done += 1
    results.put(("bye", wid, None, None))


def run_pool(units, nproc, per_child=40):
    """Fork-based worker pool that survives (and reports) worker deaths."""
    import queue as _q
    ctx = mp.get_context("fork")
    tasks = ctx.Queue()
    results = ctx.Queue()
    for i, u in enumerate(units):
        tasks.put((i, u))
    remaining = set(range(len(units)))
    workers = {}
    current = {}
    nextw = [0]

    def spawn():
        wid = nextw[0]
        nextw[0] += 1
        p = ctx.Process(target=_worker_loop, args=(wid, tasks, results, per_child), daemon=True)
        p.start()
        workers[wid] = p

    for _ in range(nproc):
        spawn()
    try:
        while remaining:
            try:
                kind, wid, idx, r = results.get(timeout=1.0)
            except _q.Empty:
                for wid, p in list(workers.items()):
                    if not p.is_alive():
                        del workers[wid]
                        idx = current.pop(wid, None)
                        if idx is not None and idx in remaining:
                            remaining.discard(idx)
                            yield ("error", units[idx][:2], "worker died (exit code %s) while running this unit" % p.exitcode)
                        if remaining:
                            spawn()
                if not workers and remaining:
                    for _ in range(min(nproc, len(remaining))):
                        spawn()
                continue
            if kind == "start":
                current[wid] = idx
            elif kind == "done":
                current.pop(wid, None)
                if idx in remaining:
                    remaining.discard(idx)
                    yield r
            elif kind == "bye":
                p = workers.pop(wid, None)
                if p is not None:
                    p.join(timeout=5)
                if remaining and len(workers) < nproc:
                    spawn()
    finally:
        for _ in workers:
            tasks.put(None)
        for p in workers.values():
            p.join(timeout=2)
            if p.is_alive():
                p.terminate()


# ------------------------------------------------------------------ functions-encoded probe

def _functions_executed(space, max_paths=3):
    seen = set()

    def prof(frame, event, arg):
        if event == "call":
            mod = frame.f_globals.get("__name__", "")
            if mod.startswith("conductor"):
                seen.add(mod + "." + frame.f_code.co_qualname)

    g = Engine(preset=space.preset)
    sys.setprofile(prof)
    try:
        g.explore(space.fn, None, max_paths=max_paths)
    except BaseException:
        pass
    finally:
        sys.setprofile(None)
    return sorted(seen)


def _sha(path):
    try:
        return hashlib.sha256(pathlib.Path(path).read_bytes()).hexdigest()[:16]
    except OSError:
        return None


def _prop_record(pid):
    for line in (VERIF / "properties.jsonl").read_text().splitlines():
        rec = json.loads(line)
        if rec["id"] == pid:
            return rec
    raise KeyError(pid)


# ------------------------------------------------------------------ main

def main(argv=None):
    import argparse
    ap = argparse.ArgumentParser()
    ap.add_argument("prop")
    ap.add_argument("--tier", default=os.environ.get("VERIF_TIER", "quick"), choices=["quick", "thorough"])
    ap.add_argument("--replay")
    ap.add_argument("--no-canaries", action="store_true")
    ap.add_argument("--only-space")
    ap.add_argument("--nproc", type=int, default=int(os.environ.get("VERIF_NPROC", "16")))
    args = ap.parse_args(argv)
    pid = args.prop.upper()
    seed = int(os.environ.get("VERIF_SEED", "0"))
    t0 = _perf()
    os.environ.setdefault("PYTHONHASHSEED", "0")
    sys.path.insert(0, str(VERIF))
    mod = importlib.import_module("props." + pid.lower())

    if args.replay:
        return do_replay(mod, pid, args.replay)

    spaces = [s for s in mod.spaces(args.tier) if args.tier in s.tiers]
    if args.only_space:
        spaces = [s for s in spaces if s.name == args.only_space]
    lemmas = [l for l in getattr(mod, "lemmas", lambda t: [])(args.tier) if args.tier in l.tiers]
    canaries = [] if args.no_canaries else list(getattr(mod, "canaries", lambda t: [])(args.tier))
    all_spaces = list(mod.spaces(args.tier))

    scratch = tempfile.mkdtemp(prefix="verif-%s-" % pid.lower(), dir=os.environ.get("VERIF_SCRATCH", "/dev/shm"))
    os.environ["VERIF_SCRATCH"] = scratch
    from . import hrun
    hrun.SCRATCH_BASE = scratch

    problems = []          # inconclusive reasons
    totals = symx.Stats()
    goals = collections.Counter()
    violations = []
    samples = []
    nontrivial = 0
    keys = set()
    space_reports = []
    canary_reports = []
    lemma_reports = []
    functions = []
    try:
        # 1. frontier of every space (master, single process)
        units = []
        _CTX.update(module=mod, spaces=spaces, canaries=canaries, lemmas=lemmas, all_spaces=all_spaces,
                    space_by_name={s.name: s for s in all_spaces})
        for si, sp in enumerate(spaces):
            ts = _perf()
            r = _explore_unit(sp, None, max_depth=sp.depth)
            rep = {"name": sp.name, "bounds": sp.bounds, "outside_bounds": sp.outside,
                   "shards": len(r["frontier"]), "exhaustive": True, "stale": r.get("stale")}
            space_reports.append(rep)
            _merge(r, totals, goals, violations, samples, problems, keys)
            nontrivial += r["nontrivial"]
            rep["_paths0"] = r["stats"]["paths"]
            for prefix in r["frontier"]:
                units.append(("shard", si, prefix))
            rep["frontier_s"] = round(_perf() - ts, 2)
        fset = set()
        for sp in spaces[:6]:
            try:
                fset.update(_functions_executed(sp, max_paths=2))
            except BaseException:
                pass
        functions = sorted(fset)
        random.Random(seed).shuffle(units)
        units = [("canary", i) for i in range(len(canaries))] + [("lemma", i) for i in range(len(lemmas))] + units
        # 2. shards, canaries and lemmas over the worker pool
        per_space_paths = collections.Counter()
        if units:
            for res in run_pool(units, max(1, min(args.nproc, len(units)))):
                kind = res[0]
                if kind == "shard":
                    _, si, r = res
                    _merge(r, totals, goals, violations, samples, problems, keys)
                    nontrivial += r["nontrivial"]
                    per_space_paths[si] += r["stats"]["paths"]
                    if not r["exhausted"]:
                        space_reports[si]["exhaustive"] = False
                elif kind == "canary":
                    canary_reports.append(res[2])
                elif kind == "lemma":
                    lemma_reports.append(dict(res[2], name=lemmas[res[1]].name, bounds=lemmas[res[1]].bounds))
                else:
                    problems.append("%s: %s" % (res[1], res[2]))
        for si, rep in enumerate(space_reports):
            rep["paths"] = rep.pop("_paths0") + per_space_paths[si]
    finally:
        shutil.rmtree(scratch, ignore_errors=True)

    # 3. lemma results
    ob_lemma = dis_lemma = q_lemma = 0
    solver_lemma = 0.0
    for lr in lemma_reports:
        ob_lemma += lr.get("obligations", 0)
        dis_lemma += lr.get("discharged", 0)
        q_lemma += lr.get("queries", 0)
        solver_lemma += lr.get("solver_s", 0.0)
        for inc in lr.get("inconclusive", []):
            problems.append("lemma %s: %s" % (lr["name"], inc))
        for sig, detail, witness in lr.get("violations", []):
            violations.append({"sig": sig, "detail": detail, "values": {"witness": witness}, "space": "lemma:" + lr["name"],
                               "replayed": True})
        samples.extend(lr.get("samples", [])[:2])

    # 4. goals and canaries
    wanted = []
    for sp, rep in zip(spaces, space_reports):
        if rep.get("stale"):
            continue          # the space could not be set up on this code base (refactored internals): its goals are waived
        wanted.extend(sp.goals)
    goal_report = {gname: goals.get(gname, 0) for gname in wanted}
    for gname, n in goal_report.items():
        if n == 0:
            problems.append("witness goal never reached: %s" % gname)
    for c in canary_reports:
        if c["state"] == "NOT KILLED":
            problems.append("canary not killed: %s %s" % (c["name"], c.get("notes")))

    # 5. counterexamples: concrete replay, known-finding match
    known, fixed = load_known()
    by_sig = collections.OrderedDict()
    for v in violations:
        by_sig.setdefault(v["sig"], v)
    printed = []
    new_violations = 0
    (VERIF / "replays").mkdir(exist_ok=True)
    for sig, v in by_sig.items():
        if not v.get("replayed"):
            ok, info = concrete_replay(mod, v)
            if not ok:
                problems.append("counterexample for %s did not reproduce concretely: %s | symbolic detail: %s | values: %s" % (
                    sig, info, v["detail"][:600], {k: x for k, x in v["values"].items() if x not in (False, 0)}))
                continue
            v["replay_info"] = info
        h = hashlib.sha256(json.dumps([pid, sig, v["values"]], sort_keys=True, default=str).encode()).hexdigest()[:10]
        rp = VERIF / "replays" / ("%s-%s.json" % (pid, h))
        rp.write_text(json.dumps({"property": pid, "sig": sig, "detail": v["detail"], "space": v["space"],
                                  "tier": args.tier, "values": v["values"], "replay_info": _jsonable(v.get("replay_info")),
                                  "rerun": "/verif/check %s --replay %s" % (pid, rp)}, indent=1, default=str))
        kn = [k for k in known if k.get("property") == pid and k.get("sig") == sig]
        if kn:
            printed.append("KNOWN-FINDING: property=%s %s" % (pid, kn[0]["text"].replace("property=%s " % pid, "")))
        else:
            new_violations += 1
            printed.append("VIOLATION property=%s replay=%s" % (pid, rp))
            printed.append("  signature=%s %s" % (sig, v["detail"][:400]))

    # 6. evidence
    wall = _perf() - t0
    exhaustive = all(r["exhaustive"] for r in space_reports) and not problems
    rec = _prop_record(pid)
    st = totals.as_dict()
    obligations = st["assertions_concrete"] + st["assertion_queries"] + ob_lemma
    discharged = st["assertions_discharged"] + dis_lemma
    ev = {
        "property_id": pid, "tier": args.tier, "seed": seed,
        "level": mod.LEVEL,
        "coverage": {
            "evaluations": st["paths"] + ob_lemma,
            "distinct_nontrivial": max(nontrivial, len(keys)) if (nontrivial or keys) else 0,
            "rule": getattr(mod, "RULE", ""),
            "samples": samples[:6] or ["(no path completed)"],
            "states": max(st["paths"], 1), "transitions": max(st["forks"], 1),
            "traces_validated_against_impl": st["paths"],
            "obligations": obligations, "discharged": discharged,
            "checker_cmd": "/verif/check %s --tier %s" % (pid, args.tier),
            "trusted_base": getattr(mod, "TRUSTED", []),
            "programs": max(st["paths"], 1), "disagreements_checked": len(by_sig),
            "explanation": getattr(mod, "EXPLANATION", mod.__doc__ or ""),
            "exhaustive": exhaustive,
            "spaces": space_reports, "lemmas": [_jsonable(l) for l in lemma_reports],
            "solver": {"engine": "z3 %s via symx (DFS replay, push/pop)" % _z3v(),
                       "feasibility_queries": st["feasibility_queries"], "assertion_queries": st["assertion_queries"],
                       "assertions_concrete": st["assertions_concrete"], "model_queries": st["model_queries"],
                       "lemma_queries": q_lemma, "solver_time_s": round(st["solver_time_s"] + solver_lemma, 2),
                       "forks_decided_by_solver": st["solver_forks"], "forks_pure_choice": st["choice_forks"],
                       "solver_share": getattr(mod, "SOLVER_SHARE", "low")},
            "functions_encoded": functions[:200],
            "sources": {f: _sha(REPO / f) for f in rec["anchors"]["files"]},
            "witness_goals": goal_report,
            "canaries": canary_reports,
            "inconclusive": problems[:20],
            "findings": [p for p in printed if not p.startswith("  ")],
        },
        "assumptions": getattr(mod, "ASSUMPTIONS", []),
        "wall_s": round(wall, 2),
        "violations": new_violations,
    }
    partial = bool(args.only_space or args.no_canaries)      # partial runs (debugging aids) never overwrite the evidence of record
    evdir = pathlib.Path(os.environ.get("VERIF_EVIDENCE_DIR") or (VERIF / "replays" / "partial-evidence" if partial else VERIF / "evidence"))
    evdir.mkdir(exist_ok=True, parents=True)
    (evdir / (pid + ".json")).write_text(json.dumps(ev, indent=1, default=str, ensure_ascii=False))

    for line in printed:
        print(line)
    print("%s tier=%s paths=%d forks=%d solver_queries=%d lemma_obligations=%d/%d canaries=%s wall=%.1fs" % (
        pid, args.tier, st["paths"], st["forks"],
        st["feasibility_queries"] + st["assertion_queries"] + st["model_queries"] + q_lemma, dis_lemma, ob_lemma,
        ",".join("%s:%s" % (c["name"], c["state"]) for c in canary_reports) or "-", wall))
    if new_violations:
        return 1
    if problems:
        for p in problems[:10]:
            print("INCONCLUSIVE:", p)
        return 2
    return 0


def _z3v():
    import z3
    return z3.get_version_string()


def _merge(r, totals, goals, violations, samples, problems, keys):
    totals.add(r["stats"])
    goals.update(r["goals"])
    violations.extend(r["violations"])
    if len(samples) < 6:
        samples.extend(r["samples"][:2])
    problems.extend(r["inconclusive"])
    keys.update(r["keys"])


def concrete_replay(mod, v):
    """Re-run the harness with plain values from the model: same stubs, no z3."""
    spaces = {s.name: s for s in mod.spaces("thorough")}
    spaces.update({s.name: s for s in mod.spaces("quick")})
    sp = spaces.get(v["space"])
    if sp is None:
        return False, "unknown space %s" % v["space"]
    scratch = tempfile.mkdtemp(prefix="verif-replay-", dir="/dev/shm")
    from . import hrun
    old = hrun.SCRATCH_BASE
    hrun.SCRATCH_BASE = scratch
    try:
        res, viol = ConcreteEngine(dict(v["values"], **(sp.preset or {}))).run(sp.fn)
        if viol is None:
            return False, "concrete run passed"
        if viol.sig != v["sig"]:
            return False, "concrete run gave a different signature: %s" % viol.sig
        extra = None
        if hasattr(mod, "replay_real"):
            extra = mod.replay_real(v)
            if extra is not None and extra.get("reproduced") is False:
                return False, "real CLI replay did not reproduce: %s" % extra
        return True, {"concrete_detail": viol.detail, "real_cli": extra}
    except BaseException as ex:
        return False, "replay crashed: %r" % ex
    finally:
        hrun.SCRATCH_BASE = old
        shutil.rmtree(scratch, ignore_errors=True)


def do_replay(mod, pid, path):
    d = json.loads(pathlib.Path(path).read_text())
    if d.get("space", "").startswith("lemma:"):
        print("lemma witness:", d["values"])
        if hasattr(mod, "replay_witness"):
            ok = mod.replay_witness(d)
            print("reproduced" if ok else "NOT reproduced")
            return 1 if ok else 2
        return 2
    ok, info = concrete_replay(mod, d)
    print(json.dumps({"reproduced": ok, "info": _jsonable(info)}, indent=1, default=str))
    if ok:
        print("VIOLATION property=%s replay=%s" % (pid, path))
        return 1
    return 2


if __name__ == "__main__":
    try:
        rc = main()
    except SystemExit as ex:
        rc = ex.code if isinstance(ex.code, int) else 2
        if rc == 1:
            rc = 2          # exit status 1 is reserved for a reproduced violation
    except BaseException:
        traceback.print_exc()
        print("INCONCLUSIVE: harness error (see traceback)")
        rc = 2
    sys.exit(rc)
