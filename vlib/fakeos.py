"""fakeos - an OS-boundary environment model that hosts the real Conductor code
(and CPython's real subprocess.Popen) over a fake process table.

Only attributes of ``os``, ``signal``, ``subprocess`` and ``time`` are replaced,
from outside; nothing in Conductor is patched.  Every stub is part of the claim
(see DESIGN.md section 4).
"""
import errno
import os
import select
import signal
import subprocess
import threading
import time

from .symx import SymInt, SymBool, Inconclusive


class Deadlock(Exception):
    """Main thread blocked in read(), nothing pending, no running child."""


class StatusExited:
    def __init__(self, rc):
        self.rc = rc

    def __repr__(self):
        return "exited(%s)" % (self.rc,)

    def __eq__(self, o):
        if isinstance(o, int) and not isinstance(self.rc, SymInt):
            return (self.rc << 8) == o
        if isinstance(o, int):
            if o & 0xFF:
                return False
            return self.rc == (o >> 8)
        return NotImplemented

    __hash__ = None


class StatusSignaled:
    def __init__(self, sig):
        self.sig = sig

    def __repr__(self):
        return "signaled(%s)" % (self.sig,)

    def __eq__(self, o):
        if isinstance(o, int):
            if o == 0:
                return False
            return self.sig == o
        return NotImplemented

    __hash__ = None


_REAL_W = (os.WIFEXITED, os.WEXITSTATUS, os.WIFSIGNALED, os.WTERMSIG)


def _WIFEXITED(s):
    if isinstance(s, StatusExited):
        return True
    if isinstance(s, StatusSignaled):
        return False
    return _REAL_W[0](s)


def _WEXITSTATUS(s):
    if isinstance(s, StatusExited):
        return s.rc
    if isinstance(s, StatusSignaled):
        return 0          # what the macro yields for a "killed by signal" status (bits 8..15 are zero)
    return _REAL_W[1](s)


def _WIFSIGNALED(s):
    if isinstance(s, StatusSignaled):
        return True
    if isinstance(s, StatusExited):
        return False
    return _REAL_W[2](s)


def _WTERMSIG(s):
    if isinstance(s, StatusSignaled):
        return s.sig
    if isinstance(s, StatusExited):
        return 0          # low 7 bits of an "exited" status
    return _REAL_W[3](s)


_PID_BASE = [100000]


class Proc:
    def __init__(self, pid, argv, env, cwd, fds, t):
        self.pid = pid
        self.vpid = pid           # stable per-path number (5000, 5001, ...) used for variable names and reports
        self.argv = argv
        self.env = env
        self.cwd = cwd
        self.fds = fds
        self.state = "run"        # run | zombie | reaped
        self.status = None
        self.t_spawn = t
        self.t_exit = None
        self.t_reap = None
        self.reaped_by = None
        self.killed = []          # (t, sig)
        self.snapshot = {}        # filled by sched.on_spawn

    @property
    def name(self):
        return self.env.get("COND_NAME")

    def __repr__(self):
        return "<proc %d %s %s>" % (self.vpid, self.name, self.state)


class Sched:
    """Default policy: nothing fails, first running child exits, status 0."""

    def launch_fails(self, kernel, argv, env):
        return False

    def on_spawn(self, kernel, proc):
        pass

    def pick_exit(self, kernel, running):
        return running[0]

    def status_for(self, kernel, proc):
        return StatusExited(0)

    def git(self, kernel, argv, cwd):
        """Answer of the fake ``git`` child: (stdout, exit code)."""
        return "", 128

    # adversarial mode only
    def exits_now(self, kernel, point, running):
        return []

    def stops_now(self, kernel, point, running):
        """Children that are stopped (SIGSTOP/SIGTSTP) and continued around this point."""
        return []

    def deliver_now(self, kernel, point):
        return True


class Clock:
    """time.time() stub.  ``reading(i)`` gives the i-th instant."""

    def __init__(self, reading=None):
        self._n = 0
        self._reading = reading

    def __call__(self):
        i = self._n
        self._n += 1
        if self._reading is None:
            return 1000000000.0 + i * 1e-3
        return self._reading(i)


class Kernel:
    FIRST_PID = 5000

    def __init__(self, sched=None, adversarial=False, clock=None, passthrough=("tar",), unrelated=0):
        self.unrelated = unrelated
        self.sched = sched or Sched()
        self.adversarial = adversarial
        self.clock = clock
        self.passthrough = passthrough
        # process ids are unique over all kernels of this (harness) process: a Popen object left over from an
        # earlier path that is finalised during a later one must not be able to poll a child of that later path
        # (pid reuse is outside every claim)
        self.base = _PID_BASE[0]
        _PID_BASE[0] += 1000
        self.next_pid = self.base
        self.procs = {}
        self.real_pids = set()
        self.real_live = set()
        self.pending = False
        self.handler = None
        self.in_handler = False
        self.events = []
        self.t = 0
        self.points = 0
        self.main_thread = threading.get_ident()
        self.git_calls = []
        self.installed = False
        self.kill_terminates = True
        self.wakeup_fd = -1
        self.arrivals = 0
        self.blocked = set()
        self.bypass = False       # True while the harness itself runs a real helper process
        self.on_block = None      # called when the main thread would block in read()

    # ---- bookkeeping
    def tick(self):
        self.t += 1
        return self.t

    def ev(self, kind, *rest):
        e = (kind, self.tick()) + rest
        self.events.append(e)
        return e

    def running(self):
        return sorted((p for p in self.procs.values() if p.state == "run"), key=lambda p: p.pid)

    def tasks(self):
        return [p for p in sorted(self.procs.values(), key=lambda p: p.pid) if p.name is not None]

    # ---- child side helpers (used by sched.on_spawn)
    def child_write(self, proc, which, data):
        fd = proc.fds.get(which)
        if fd is None:
            return False
        view = memoryview(data)
        while len(view):
            n = self._real["write"](fd, view[:65536])
            view = view[n:]
        return True

    # ---- process table
    def fork_exec(self, args, executable_list, close_fds, pass_fds, cwd, env,
                  p2cread, p2cwrite, c2pread, c2pwrite, errread, errwrite,
                  errpipe_read, errpipe_write, *rest):
        argv = [os.fsdecode(a) for a in args]
        base = os.path.basename(argv[0]) if argv else ""
        if base in self.passthrough or self.bypass:
            pid = self._real["fork_exec"](args, executable_list, close_fds, pass_fds, cwd, env,
                                          p2cread, p2cwrite, c2pread, c2pwrite, errread, errwrite,
                                          errpipe_read, errpipe_write, *rest)
            self.real_pids.add(pid)
            self.real_live.add(pid)
            return pid
        self._point("fork_exec")
        envd = {}
        if env is not None:
            for kv in env:
                k, _, v = os.fsdecode(kv).partition("=")
                envd[k] = v
        else:
            envd = dict(os.environ)
        cwd_s = os.fsdecode(cwd) if cwd is not None else os.getcwd()
        if base == "git":
            out, rc = self.sched.git(self, argv[1:], cwd_s)
            self.git_calls.append((argv[1:], cwd_s, rc))
            if c2pwrite != -1 and out:
                self._real["write"](c2pwrite, out.encode())
            pid = self.next_pid
            self.next_pid += 1
            p = Proc(pid, argv, envd, cwd_s, {}, self.tick())
            p.vpid = self.FIRST_PID + (pid - self.base)
            p.state = "zombie"
            p.status = rc << 8
            p.t_exit = p.t_spawn
            self.procs[pid] = p
            if self.handler is not None:
                self._arrived()
            return pid
        if self.sched.launch_fails(self, argv, envd):
            self.ev("launch_failed", envd.get("COND_NAME"))
            raise OSError(errno.EAGAIN, "Resource temporarily unavailable (injected)")
        pid = self.next_pid
        self.next_pid += 1
        fds = {}
        for name, fd in (("out", c2pwrite), ("err", errwrite)):
            if fd != -1:
                fds[name] = os.dup(fd)
        p = Proc(pid, argv, envd, cwd_s, fds, 0)
        p.vpid = self.FIRST_PID + (pid - self.base)
        p.stdio = {"out": c2pwrite, "err": errwrite}
        p.blocked = set(self.blocked)         # signal mask inherited across fork/exec
        self.procs[pid] = p
        e = self.ev("spawn", p.vpid, envd.get("COND_NAME"))
        p.t_spawn = e[1]
        self.sched.on_spawn(self, p)
        self._point("fork_exec_ret")
        return pid

    def exit_child(self, p):
        assert p.state == "run"
        p.status = self.sched.status_for(self, p)
        for fd in p.fds.values():
            os.close(fd)
        p.fds = {}
        p.state = "zombie"
        self._arrived()
        e = self.ev("exit", p.vpid, p.name, p.status)
        p.t_exit = e[1]

    def release_children(self):
        """The command is over: whatever children are still running lose their
        stdio (as if they ended), so that reader threads see EOF."""
        for p in self.procs.values():
            for fd in p.fds.values():
                try:
                    os.close(fd)
                except OSError:
                    pass
            p.fds = {}

    def deliver(self):
        if self.pending and self.handler is not None and not self.in_handler:
            self.pending = False
            self.in_handler = True
            try:
                self.handler(signal.SIGCHLD, None)
            finally:
                self.in_handler = False

    def _point(self, name):
        """A kernel-call boundary: in adversarial mode the schedule decides which
        running children have exited by now and whether the pending SIGCHLD is
        delivered here."""
        if not self.adversarial or self.in_handler:
            return
        if threading.get_ident() != self.main_thread:
            return
        self.points += 1
        run = self.running()
        if run:
            for p in self.sched.stops_now(self, name, run):
                # job control: the child stops (the parent gets SIGCHLD: CPython does not set SA_NOCLDSTOP),
                # the handler runs, then somebody continues the child
                p.stopped = True
                p.stop_reported = False
                self._arrived()
                self.ev("stop", p.pid, p.name)
                self.deliver()
                p.stopped = False
                self._arrived()              # SIGCHLD is also sent when a stopped child continues
                self.ev("cont", p.pid, p.name)
                self.deliver()
            run = self.running()
            for p in self.sched.exits_now(self, name, run):
                self.exit_child(p)
        if self.pending and self.handler is not None:
            if self.sched.deliver_now(self, name):
                self.deliver()

    def waitpid(self, pid, flags):
        if pid in self.real_pids:
            r = self._real["waitpid"](pid, flags)
            if r[0] == pid:
                self.real_live.discard(pid)
            return r
        if pid != -1 and pid not in self.procs:
            # a pid this kernel never handed out (e.g. the finaliser of a Popen object left over from an EARLIER run, which
            # the garbage collector happens to run now): not an event of this run, no scheduling point
            raise ChildProcessError(errno.ECHILD, "No child processes")
        if not self.in_handler and threading.get_ident() == self.main_thread:
            self._point("waitpid")
        live = [p for p in sorted(self.procs.values(), key=lambda p: p.pid)
                if p.state != "reaped" and (pid == -1 or p.pid == pid)]
        if not live:
            raise ChildProcessError(errno.ECHILD, "No child processes")
        while True:
            for p in live:
                if p.state == "zombie":
                    p.state = "reaped"
                    e = self.ev("reap", p.vpid, p.name, "handler" if self.in_handler else "main")
                    p.t_reap = e[1]
                    p.reaped_by = e[4]
                    return p.pid, p.status
            if flags & os.WUNTRACED:
                for p in live:
                    if getattr(p, "stopped", False) and not getattr(p, "stop_reported", True):
                        p.stop_reported = True
                        return p.pid, (int(signal.SIGSTOP) << 8) | 0x7F       # WIFSTOPPED status
            if flags & os.WNOHANG:
                return 0, 0
            # blocking wait: some matching running child exits now
            cands = [p for p in live if p.state == "run"]
            if not cands:
                raise Deadlock("waitpid(%d, 0) would block forever" % pid)
            self.exit_child(self.sched.pick_exit(self, cands))

    def read(self, fd, n):
        if threading.get_ident() != self.main_thread:
            return self._real["read"](fd, n)
        self._point("read")
        # A signal that arrived BEFORE the read() system call is entered does not interrupt it: the interpreter only
        # noted it for later (and wrote to the wake-up descriptor, if one is set). Only a signal arriving while the call
        # is blocked makes it return EINTR, after which the Python-level handlers run and the read is retried (PEP 475).
        seen = self.arrivals
        while True:
            po = select.poll()            # (select.select is limited to descriptors below 1024)
            po.register(fd, select.POLLIN | select.POLLHUP)
            r = po.poll(0)
            if r:
                data = self._real["read"](fd, n)
                # back in the interpreter: pending Python-level handlers run before the next bytecode line
                if self.pending and self.handler is not None:
                    self.deliver()
                return data
            if self.pending and self.handler is not None and self.arrivals > seen:
                self.deliver()            # EINTR: handler, then retry
                seen = self.arrivals
                continue
            if self.on_block is not None:
                self.on_block(self, fd)
            run = self.running()
            if not run and self.real_live:
                # a real helper process (tar) is still alive: this read really blocks on it
                return self._real["read"](fd, n)
            if not run:
                self.ev("deadlock", fd)
                if self.pending and self.handler is not None:
                    raise Deadlock("blocked in read(%d) forever: the last SIGCHLD arrived just before the call was entered, so it "
                                   "does not interrupt it, and its Python-level handler never runs" % fd)
                raise Deadlock("blocked in read(%d): nothing pending, no running child" % fd)
            self.exit_child(self.sched.pick_exit(self, run))
            if self.adversarial:
                # one SIGCHLD may stand for several exits
                while True:
                    more = self.running()
                    extra = self.sched.exits_now(self, "read_batch", more) if more else []
                    if not extra:
                        break
                    for p in extra:
                        self.exit_child(p)

    def getpgid(self, pid):
        p = self.procs.get(pid)
        if p is not None:
            if p.state != "reaped":
                return pid
            raise ProcessLookupError(errno.ESRCH, "No such process")
        return self._real["getpgid"](pid)

    def killpg(self, pgid, sig):
        p = self.procs.get(pgid)
        if p is None:
            raise ProcessLookupError(errno.ESRCH, "No such process")
        if p.state == "reaped":
            raise ProcessLookupError(errno.ESRCH, "No such process")
        e = self.ev("killpg", pgid, p.name, int(sig))
        p.killed.append((e[1], int(sig)))
        if int(sig) in getattr(p, "blocked", ()) and int(sig) != int(signal.SIGKILL):
            return                      # the child inherited a mask that blocks this signal: it stays pending, the child runs on
        if p.state == "run" and self.kill_terminates and int(sig) in (int(signal.SIGTERM), int(signal.SIGKILL), int(signal.SIGINT)):
            # default disposition: the task's process group dies, its pipes close
            p.status = int(sig)          # real wait-status encoding of 'killed by sig'
            for fd in p.fds.values():
                os.close(fd)
            p.fds = {}
            p.state = "zombie"
            self._arrived()
            e = self.ev("exit", p.vpid, p.name, p.status)
            p.t_exit = e[1]

    def kill(self, pid, sig):
        if pid in self.procs:
            return self.killpg(pid, sig)
        return self._real["kill"](pid, sig)

    def pthread_sigmask(self, how, mask):
        """The calling thread's signal mask is inherited by children created while it is in effect."""
        old = self._real["pthread_sigmask"](how, mask)
        try:
            self.blocked = set(int(x) for x in self._real["pthread_sigmask"](signal.SIG_BLOCK, []))
        except Exception:
            pass
        return old

    def set_wakeup_fd(self, fd, **kw):
        """signal.set_wakeup_fd: the interpreter's C-level handler writes the signal
        number to this descriptor as soon as a signal arrives (before any
        Python-level handler runs)."""
        old = self.wakeup_fd
        self.wakeup_fd = fd
        return old

    def _arrived(self):
        """A SIGCHLD has arrived at C level: it is pending for the Python-level handler."""
        self.pending = True
        self.arrivals += 1
        if self.wakeup_fd is not None and self.wakeup_fd >= 0 and self.handler is not None:
            try:
                self._real["write"](self.wakeup_fd, bytes([int(signal.SIGCHLD)]))
            except OSError:
                pass

    def signal(self, sig, h):
        if sig == signal.SIGCHLD:
            old = self.handler
            self.handler = h if callable(h) else None
            if self.handler is None:
                self.pending = False
            return old if old is not None else signal.SIG_DFL
        return self._real["signal"](sig, h)

    # ---- file-system effects worth a timestamp (combine steps)
    def symlink(self, src, dst, *a, **kw):
        r = self._real["symlink"](src, dst, *a, **kw)
        if threading.get_ident() == self.main_thread:
            self.ev("symlink", os.fspath(src), os.fspath(dst))
        return r

    def mkdir(self, path, *a, **kw):
        r = self._real["mkdir"](path, *a, **kw)
        if threading.get_ident() == self.main_thread:
            self.ev("mkdir", os.fspath(path))
        return r

    # ---- install / remove
    def __enter__(self):
        d = subprocess.Popen._internal_poll.__defaults__
        self._real = {
            "fork_exec": subprocess._fork_exec, "poll_defaults": d, "waitpid": os.waitpid,
            "read": os.read, "write": os.write, "getpgid": os.getpgid, "killpg": os.killpg,
            "kill": os.kill, "signal": signal.signal, "time": time.time,
            "W": (os.WIFEXITED, os.WEXITSTATUS, os.WIFSIGNALED, os.WTERMSIG),
            "symlink": os.symlink, "mkdir": os.mkdir, "set_wakeup_fd": signal.set_wakeup_fd,
            "pthread_sigmask": signal.pthread_sigmask,
        }
        signal.pthread_sigmask = self.pthread_sigmask
        signal.set_wakeup_fd = self.set_wakeup_fd
        os.symlink = self.symlink
        os.mkdir = self.mkdir
        subprocess._fork_exec = self.fork_exec
        nd = list(d)
        nd[1] = self.waitpid
        subprocess.Popen._internal_poll.__defaults__ = tuple(nd)
        os.waitpid = self.waitpid
        os.read = self.read
        os.getpgid = self.getpgid
        os.killpg = self.killpg
        os.kill = self.kill
        signal.signal = self.signal
        os.WIFEXITED, os.WEXITSTATUS, os.WIFSIGNALED, os.WTERMSIG = (
            _WIFEXITED, _WEXITSTATUS, _WIFSIGNALED, _WTERMSIG)
        if self.clock is not None:
            time.time = self.clock
        subprocess._active.clear()
        self.installed = True
        for _ in range(self.unrelated):
            # a child of the cond process that is not a task (e.g. inherited through exec)
            pid = self.next_pid
            self.next_pid += 1
            self.procs[pid] = Proc(pid, ["unrelated"], {}, "/", {}, self.tick())
            self.procs[pid].vpid = self.FIRST_PID + (pid - self.base)
        return self

    def __exit__(self, *a):
        r = self._real
        subprocess._fork_exec = r["fork_exec"]
        subprocess.Popen._internal_poll.__defaults__ = r["poll_defaults"]
        os.waitpid = r["waitpid"]
        os.read = r["read"]
        os.getpgid = r["getpgid"]
        os.killpg = r["killpg"]
        os.kill = r["kill"]
        signal.signal = r["signal"]
        time.time = r["time"]
        os.symlink = r["symlink"]
        os.mkdir = r["mkdir"]
        signal.set_wakeup_fd = r["set_wakeup_fd"]
        signal.pthread_sigmask = r["pthread_sigmask"]
        os.WIFEXITED, os.WEXITSTATUS, os.WIFSIGNALED, os.WTERMSIG = r["W"]
        for p in self.procs.values():
            for fd in p.fds.values():
                try:
                    os.close(fd)
                except OSError:
                    pass
            p.fds = {}
        subprocess._active.clear()
        self.installed = False
        return False
