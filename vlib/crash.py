"""Crash-point injection: run a Conductor command in a forked child under a
line tracer that kills the process (os._exit, no cleanup, no atexit - like
SIGKILL) when the k-th line of the selected conductor modules is about to
execute; the parent then inspects the disk."""
import os
import pickle
import sys

import conductor as _c

SRC = os.path.dirname(os.path.realpath(_c.__file__)) + os.sep


class _Tracer:
    def __init__(self, k, only):
        self.k = k
        self.n = 0
        self.only = only
        self.where = None

    def local(self, frame, event, arg):
        if event == "line":
            if self.n == self.k:
                code = frame.f_code
                os.write(self.report_fd, pickle.dumps({"killed_at": "%s:%s:%d" % (code.co_filename[len(SRC):], code.co_qualname, frame.f_lineno), "n": self.n}))
                os._exit(137)
            self.n += 1
        return self.local

    def glob(self, frame, event, arg):
        fn = frame.f_code.co_filename
        if fn.startswith(SRC) and (self.only is None or fn[len(SRC):] in self.only):
            return self.local
        return None


def run_in_child(fn, k=None, only=None):
    """Run fn() in a forked child.  k=None: count the line events and report
    them; k=int: die at the k-th.  Returns dict(status=exit code or 'killed',
    lines=N (when counting), killed_at=...)."""
    r, w = os.pipe()
    sys.stdout.flush()
    sys.stderr.flush()
    pid = os.fork()
    if pid == 0:
        code = 99
        try:
            os.close(r)
            try:
                import ctypes
                ctypes.CDLL("libc.so.6").prctl(1, 9, 0, 0, 0)      # die with the worker
            except Exception:
                pass
            tr = _Tracer(k if k is not None else -1, only)
            tr.report_fd = w
            sys.settrace(tr.glob)
            try:
                res = fn()
            finally:
                sys.settrace(None)
            os.write(w, pickle.dumps({"lines": tr.n, "result": res}))
            code = 0
        except BaseException as ex:       # never return into the parent's stack
            try:
                os.write(w, pickle.dumps({"child_error": repr(ex)}))
            except Exception:
                pass
            code = 98
        finally:
            os._exit(code)
    os.close(w)
    data = b""
    while True:
        chunk = os.read(r, 65536)
        if not chunk:
            break
        data += chunk
    os.close(r)
    _, st = os.waitpid(pid, 0)
    out = pickle.loads(data) if data else {}
    out["exit"] = os.waitstatus_to_exitcode(st)
    out["killed"] = out["exit"] == 137
    return out
