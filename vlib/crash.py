"""Crash-point injection: run a Conductor command in a forked child under a
line tracer that kills the process (os._exit, no cleanup, no atexit - like
SIGKILL) when the k-th line of the selected conductor modules is about to
execute; the parent then inspects the disk."""
import gc
import os
import pickle
import sys

import conductor as _c

SRC = os.path.dirname(os.path.realpath(_c.__file__)) + os.sep


class EnvLoops:
    """Loops in Conductor whose trip count depends on the interpreter's environment and not on the program's input:
    `prevent_module_caching` walks over sys.modules (one pair of line events per loaded module - several hundred, and the
    number changes whenever the harness itself imports something).  Their line events are counted for the first two
    iterations only, so that point numbers are the same in every process and every run."""
    NAMES = ("prevent_module_caching",)

    def __init__(self):
        self.cnt = {}

    def entered(self, frame):
        """Call (or generator resumption) event."""
        if frame.f_code.co_name in self.NAMES:
            self.cnt = {}

    def skip(self, frame):
        code = frame.f_code
        if code.co_name not in self.NAMES:
            return False
        key = (id(frame), frame.f_lineno)
        c = self.cnt.get(key, 0) + 1
        self.cnt[key] = c
        return c > 2


class _Tracer:
    def __init__(self, k, only):
        self.k = k
        self.n = 0
        self.only = only
        self.where = None
        self.env = EnvLoops()

    def local(self, frame, event, arg):
        if event == "line":
            if self.env.skip(frame):
                return self.local
            if self.n == self.k:
                code = frame.f_code
                os.write(self.report_fd, pickle.dumps({"killed_at": "%s:%s:%d" % (code.co_filename[len(SRC):], code.co_qualname, frame.f_lineno), "n": self.n}))
                os._exit(137)
            self.n += 1
        return self.local

    def glob(self, frame, event, arg):
        fn = frame.f_code.co_filename
        if fn.startswith(SRC) and (self.only is None or fn[len(SRC):] in self.only):
            self.env.entered(frame)
            return self.local
        return None


def run_in_child(fn, k=None, only=None):
    """Run fn() in a forked child.  k=None: count the line events and report
    them; k=int: die at the k-th.  Returns dict(status=exit code or 'killed',
    lines=N (when counting), killed_at=...)."""
    r, w = os.pipe()
    sys.stdout.flush()
    sys.stderr.flush()
    gc.collect()           # finalisers of garbage from earlier runs must not run (and be counted) inside the child
    pid = os.fork()
    if pid == 0:
        code = 99
        try:
            gc.disable()
            os.close(r)
            try:
                import ctypes
                ctypes.CDLL("libc.so.6").prctl(1, 9, 0, 0, 0)      # die with the worker
            except Exception:
                pass
            tr = _Tracer(k if k is not None else -1, only)
            tr.report_fd = w
            sys.settrace(tr.glob)
            try:
                res = fn()
            finally:
                sys.settrace(None)
            os.write(w, pickle.dumps({"lines": tr.n, "result": res}))
            code = 0
        except BaseException as ex:       # never return into the parent's stack
            try:
                os.write(w, pickle.dumps({"child_error": repr(ex)}))
            except Exception:
                pass
            code = 98
        finally:
            os._exit(code)
    os.close(w)
    data = b""
    while True:
        chunk = os.read(r, 65536)
        if not chunk:
            break
        data += chunk
    os.close(r)
    _, st = os.waitpid(pid, 0)
    out = pickle.loads(data) if data else {}
    out["exit"] = os.waitstatus_to_exitcode(st)
    out["killed"] = out["exit"] == 137
    return out
