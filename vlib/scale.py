"""Structured LARGE instances (hundreds of tasks / versions / names of hundreds of characters) with a few solver-chosen
dimensions each: many defects only show beyond a size threshold (caches that evict, recursion limits, pagination,
work splitting, integer wrap-around), which spaces over <= 4 tasks cannot reach."""
from .hrun import TaskSpec


def wide_shared(width, shared_kind="run_command", shared_last=True, par=True):
    """root(group) <- [late, c1..c<width>, S]  with late -> S: a shared dependency referenced again after `width`
    other tasks were looked up."""
    S = TaskSpec("shared", shared_kind, [], par=par)
    late = TaskSpec("late", "run_command", [":shared"], par=par)
    mids = [TaskSpec("c%d" % i, "run_command", [], par=par) for i in range(width)]
    deps = [":late"] + [":c%d" % i for i in range(width)] + [":shared"]
    if not shared_last:
        deps = [":shared", ":late"] + [":c%d" % i for i in range(width)]
    root = TaskSpec("root", "group", deps)
    return [S, late] + mids + [root]


def chain(length, kind="run_command"):
    specs = [TaskSpec("t0", kind, [])]
    for i in range(1, length):
        specs.append(TaskSpec("t%d" % i, kind, [":t%d" % (i - 1)]))
    return specs


def fan(width, kind="run_command", par=True):
    leaves = [TaskSpec("l%d" % i, kind, [], par=par) for i in range(width)]
    return leaves + [TaskSpec("root", "group", [":l%d" % i for i in range(width)])]
