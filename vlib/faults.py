"""Fault schedules as a symbolic variable: at most one injected failure per invocation.

The file-system entry points Conductor (and the standard library on its behalf) uses are wrapped; calls are numbered in
program order and the engine's decision variable ``k`` (0 = no fault, k = the k-th eligible call fails) selects which one
raises.  A call is eligible when it is made on behalf of Conductor's code (the innermost frame outside the standard library
belongs to the conductor package - the harness's own book-keeping is never faulted) and its path lies under ``root``.
Calls beyond ``bound`` are never faulted (stated as outside the claim; ``max_calls`` reports how many there were)."""
import errno
import os
import shutil
import sqlite3
import sys
import sysconfig

import conductor as _c

SRC = os.path.dirname(os.path.realpath(_c.__file__)) + os.sep
_STD = os.path.realpath(sysconfig.get_paths()["stdlib"]) + os.sep

FS_FUNCS = (("os", "listdir"), ("os", "scandir"), ("os", "mkdir"), ("os", "rmdir"), ("os", "open"), ("os", "symlink"),
            ("os", "unlink"), ("os", "replace"), ("os", "rename"), ("shutil", "copyfile"))
_MODS = {"os": os, "shutil": shutil}


def _for_conductor():
    f = sys._getframe(2)
    depth = 0
    while f is not None and depth < 40:
        fn = f.f_code.co_filename
        if fn.startswith(SRC):
            return True
        if not (fn.startswith(_STD) or fn.startswith("<frozen")):
            return False
        f = f.f_back
        depth += 1
    return False


class OneFault:
    def __init__(self, k, root, err=errno.EACCES, funcs=FS_FUNCS):
        self.k = k
        self.root = os.path.realpath(str(root))
        self.err = err
        self.funcs = funcs
        self.n = 0
        self.fired = None
        self._saved = []

    def _eligible(self, args, kw):
        if not args or kw.get("dir_fd") is not None:
            return None
        p = args[0]
        if isinstance(p, int):
            return None
        try:
            p = os.fspath(p)
        except TypeError:
            return None
        if isinstance(p, bytes):
            p = os.fsdecode(p)
        ap = os.path.abspath(p)
        if ap == self.root or ap.startswith(self.root + os.sep):
            return ap
        return None

    def _wrap(self, mod, name, real):
        def wrapper(*args, **kw):
            ap = self._eligible(args, kw)
            if ap is not None and self.fired is None and _for_conductor():
                self.n += 1
                if self.n == self.k:
                    self.fired = "%s.%s(%s)" % (mod, name, os.path.relpath(ap, self.root))
                    raise OSError(self.err, os.strerror(self.err) + " (injected)", ap)
            return real(*args, **kw)
        wrapper.__name__ = name
        return wrapper

    def __enter__(self):
        for mod, name in self.funcs:
            m = _MODS[mod]
            real = getattr(m, name)
            self._saved.append((m, name, real))
            setattr(m, name, self._wrap(mod, name, real))
        return self

    def __exit__(self, *a):
        for m, name, real in reversed(self._saved):
            setattr(m, name, real)
        self._saved = []
        return False


class _Cur:
    def __init__(self, cur, owner):
        self._cur, self._owner = cur, owner

    def execute(self, sql, *a):
        self._owner._tick(sql)
        r = self._cur.execute(sql, *a)
        return self if r is self._cur else r

    def __getattr__(self, name):
        return getattr(self._cur, name)

    def __iter__(self):
        return iter(self._cur)


class _Conn:
    def __init__(self, conn, owner):
        self._conn, self._owner = conn, owner

    def execute(self, sql, *a):
        self._owner._tick(sql)
        return self._conn.execute(sql, *a)

    def cursor(self, *a):
        return _Cur(self._conn.cursor(*a), self._owner)

    def __getattr__(self, name):
        return getattr(self._conn, name)


class OneSqlFault:
    """The k-th SQL statement issued through conductor.execution.version_index's connection fails with
    sqlite3.OperationalError('database is locked') - what a second process holding the lock past the busy timeout causes."""

    def __init__(self, k):
        self.k = k
        self.n = 0
        self.fired = None

    def _tick(self, sql):
        if self.fired is None:
            self.n += 1
            if self.n == self.k:
                self.fired = " ".join(str(sql).split())[:80]
                raise sqlite3.OperationalError("database is locked (injected)")

    def __enter__(self):
        import types
        import conductor.execution.version_index as vi
        self._vi = vi
        self._real = vi.sqlite3
        shim = types.ModuleType("sqlite3_shim")
        shim.__dict__.update({k: v for k, v in sqlite3.__dict__.items() if not k.startswith("__")})
        owner = self

        def connect(*a, **kw):
            return _Conn(sqlite3.connect(*a, **kw), owner)
        shim.connect = connect
        vi.sqlite3 = shim
        return self

    def __exit__(self, *a):
        self._vi.sqlite3 = self._real
        return False


def with_faults(func, *faults):
    """Wrap a CLI entry point so that the fault wrappers are in place exactly while it runs."""
    def f(ns):
        import contextlib
        with contextlib.ExitStack() as st:
            for x in faults:
                st.enter_context(x)
            return func(ns)
    return f
