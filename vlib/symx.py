"""symx - a lean z3-backed symbolic execution engine for running real Python code.

Symbolic values are ordinary Python objects (SymBool / SymInt) that overload
operators and build z3 terms; the program under test runs natively.  The only
place a path forks is ``__bool__`` (and the concretisation helpers built on
it).  Exploration is a stateless depth-first search by replay: the harness is
re-executed from scratch for every path, the recorded decision prefix is
replayed by *asserting* the recorded literals, and at the first new fork the
solver decides which sides are feasible.

Verdict discipline
  * ``unsat`` for ``pc and not a``  -> assertion ``a`` holds on this path for
    every value the path stands for;
  * ``sat``  -> a model, turned into concrete inputs and replayed by the caller;
  * ``unknown`` / solver exception / watchdog -> :class:`Inconclusive`.
"""
import time as _time
import z3

_perf = _time.perf_counter


class PathAbort(BaseException):
    """The current path is infeasible (no side of a fork is satisfiable)."""


class Cut(BaseException):
    """Raised at the sharding depth; the decision prefix becomes a work unit."""


class Inconclusive(BaseException):
    """Solver said unknown, a proxy met an operation it does not define, a
    watchdog fired ...  Never reported as success, never as a violation."""


class Violation(Exception):
    """An assertion's negation is satisfiable under the path condition."""

    def __init__(self, sig, detail, values=None, decisions=None):
        super().__init__("%s: %s" % (sig, detail))
        self.sig = sig
        self.detail = detail
        self.values = values or {}
        self.decisions = decisions or []


# --------------------------------------------------------------------------
# symbolic values
# --------------------------------------------------------------------------

def _lift_int(v):
    if isinstance(v, SymInt):
        return v.e
    if isinstance(v, SymBool):
        v._mix(None)
        return z3.If(v.e, z3.IntVal(1), z3.IntVal(0))
    if isinstance(v, bool):
        return z3.IntVal(1 if v else 0)
    if isinstance(v, int):
        return z3.IntVal(v)
    return NotImplemented


def _lift_bool(v):
    if isinstance(v, SymBool):
        return v.e
    if isinstance(v, bool):
        return z3.BoolVal(v)
    if isinstance(v, z3.BoolRef):
        return v
    return NotImplemented


class SymBool:
    __slots__ = ("g", "e")

    def __init__(self, g, e):
        self.g = g
        self.e = e

    def __bool__(self):
        return self.g.branch(self.e)

    def _mix(self, o):
        # a Boolean atom that takes part in a compound term is no longer "free"
        self.g.entangled.add(self.e.get_id())
        if isinstance(o, SymBool):
            self.g.entangled.add(o.e.get_id())

    def __eq__(self, o):
        r = _lift_bool(o)
        if r is NotImplemented:
            return NotImplemented
        self._mix(o)
        return SymBool(self.g, self.e == r)

    def __ne__(self, o):
        r = _lift_bool(o)
        if r is NotImplemented:
            return NotImplemented
        self._mix(o)
        return SymBool(self.g, self.e != r)

    def __and__(self, o):
        r = _lift_bool(o)
        if r is NotImplemented:
            return NotImplemented
        self._mix(o)
        return SymBool(self.g, z3.And(self.e, r))

    __rand__ = __and__

    def __or__(self, o):
        r = _lift_bool(o)
        if r is NotImplemented:
            return NotImplemented
        self._mix(o)
        return SymBool(self.g, z3.Or(self.e, r))

    __ror__ = __or__

    def __invert__(self):
        self._mix(None)
        return SymBool(self.g, z3.Not(self.e))

    __hash__ = None

    def __repr__(self):
        return "<symbool %s>" % self.e

    def __getattr__(self, name):
        raise Inconclusive("SymBool has no operation %r" % name)


class SymInt:
    """Symbolic mathematical integer (Python ``int`` semantics).

    ``opaque=True``: ``str()``/``format()`` give a token instead of forking over
    every value (used for exit statuses so that building an error message does
    not enumerate 255 codes).  ``opaque=False``: rendering concretises."""

    __slots__ = ("g", "e", "opaque")

    def __init__(self, g, e, opaque=True):
        self.g = g
        self.e = e
        self.opaque = opaque

    def _cmp(self, o, op):
        r = _lift_int(o)
        if r is NotImplemented:
            return NotImplemented
        return SymBool(self.g, op(self.e, r))

    def __eq__(self, o):
        if o is None:
            return False
        return self._cmp(o, lambda a, b: a == b)

    def __ne__(self, o):
        if o is None:
            return True
        return self._cmp(o, lambda a, b: a != b)

    def __lt__(self, o):
        return self._cmp(o, lambda a, b: a < b)

    def __le__(self, o):
        return self._cmp(o, lambda a, b: a <= b)

    def __gt__(self, o):
        return self._cmp(o, lambda a, b: a > b)

    def __ge__(self, o):
        return self._cmp(o, lambda a, b: a >= b)

    def _arith(self, o, op):
        r = _lift_int(o)
        if r is NotImplemented:
            return NotImplemented
        return SymInt(self.g, op(self.e, r), self.opaque)

    def __add__(self, o):
        return self._arith(o, lambda a, b: a + b)

    __radd__ = __add__

    def __sub__(self, o):
        return self._arith(o, lambda a, b: a - b)

    def __rsub__(self, o):
        return self._arith(o, lambda a, b: b - a)

    def __mul__(self, o):
        return self._arith(o, lambda a, b: a * b)

    __rmul__ = __mul__

    def __neg__(self):
        return SymInt(self.g, -self.e, self.opaque)

    def __bool__(self):
        return self.g.branch(self.e != 0)

    def concretize(self):
        return self.g.concretize(self.e)

    def __index__(self):
        return self.concretize()

    __int__ = __index__

    def __float__(self):
        return float(self.concretize())

    def __hash__(self):
        return hash(self.concretize())

    def __str__(self):
        if self.opaque:
            return "<sym:%s>" % z3.simplify(self.e)
        return str(self.concretize())

    __repr__ = __str__

    def __format__(self, spec):
        if self.opaque:
            return str(self)
        return format(self.concretize(), spec)

    def __getattr__(self, name):
        raise Inconclusive("SymInt has no operation %r" % name)


def is_sym(v):
    return isinstance(v, (SymBool, SymInt))


# --------------------------------------------------------------------------
# engine
# --------------------------------------------------------------------------

class Stats:
    FIELDS = ("paths", "infeasible_paths", "forks", "choice_forks", "solver_forks",
              "feasibility_queries", "assertion_queries", "assertions_concrete",
              "assertions_discharged", "model_queries", "solver_time_s", "cuts")

    def __init__(self):
        for f in self.FIELDS:
            setattr(self, f, 0)

    def as_dict(self):
        return {f: getattr(self, f) for f in self.FIELDS}

    def add(self, d):
        for f in self.FIELDS:
            setattr(self, f, getattr(self, f) + d.get(f, 0))


class Decision:
    __slots__ = ("alts", "i", "conc", "done")

    def __init__(self, alts, conc=False):
        self.alts = alts
        self.i = 0
        self.conc = conc      # value enumeration: alternatives discovered lazily
        self.done = False

    @property
    def outcome(self):
        return self.alts[self.i]


class Engine:
    symbolic = True

    def __init__(self, fixed=None, timeout_ms=20000, preset=None):
        self.preset = dict(preset or {})
        self.solver = z3.Solver()
        self.solver.set("timeout", timeout_ms)
        self.fixed = list(fixed or [])
        self.decisions = [Decision([o]) for o in self.fixed]
        self.nfixed = len(self.fixed)
        self.pos = 0
        self.stats = Stats()
        self.cut = None
        self._reset_path()

    # ---- per path state
    def _reset_path(self):
        self.solver.reset()
        self.pos = 0
        self.known = {}
        self.pinned = {}          # expr id -> concrete value fixed on this path
        self.entangled = set()
        self.vars = {}      # name -> z3 const (creation order)
        self.goals = set()
        self.notes = {}
        self.path_obligations = 0

    # ---- value factories
    def fresh_bool(self, name):
        v = z3.Bool(name)
        self.vars[name] = v
        if name in self.preset:
            self._assume(v == bool(self.preset[name]))
            return SymBool(self, z3.BoolVal(bool(self.preset[name])))
        return SymBool(self, v)

    def fresh_int(self, name, lo=None, hi=None, opaque=True):
        v = z3.Int(name)
        if name not in self.vars:
            self.vars[name] = v
            if lo is not None:
                self._assume(v >= lo)
            if hi is not None:
                self._assume(v <= hi)
            if name in self.preset:
                self._assume(v == int(self.preset[name]))
        return SymInt(self, v, opaque)

    def choose(self, name, n):
        """A structural choice in [0, n): a solver variable fixed by forking
        over all n values (no solver call needed: the variable is fresh)."""
        assert n >= 1
        v = z3.Int(name)
        fresh = name not in self.vars
        self.vars[name] = v
        if not fresh:
            return self.concretize(v)
        if name in self.preset:
            self._assume(v == int(self.preset[name]))
            self.pinned[v.get_id()] = int(self.preset[name])
            return int(self.preset[name])
        if self.pos < len(self.decisions):
            d = self.decisions[self.pos]
        else:
            d = Decision(list(range(n)))
            self.decisions.append(d)
            if n > 1:
                self.stats.forks += 1
                self.stats.choice_forks += 1
        self.pos += 1
        val = d.outcome
        if isinstance(val, bool) or not isinstance(val, int) or not 0 <= val < max(n, 1):
            raise Inconclusive("replay diverged at decision %d: choose(%s, %d) meets the recorded value %r" % (self.pos - 1, name, n, val))
        self._assume(v == val)
        self.pinned[v.get_id()] = val
        self._maybe_cut()
        return val

    def flag(self, name):
        """A Boolean structural choice (concrete ``bool``)."""
        return bool(self.fresh_bool(name))

    def lift(self, expr):
        """A z3 Boolean term as a value of this engine."""
        return SymBool(self, expr)

    def term(self, v):
        """The z3 term of a Boolean value of this engine."""
        return v.e if isinstance(v, SymBool) else z3.BoolVal(bool(v))

    # ---- solver plumbing
    def _assume(self, expr):
        self.solver.add(expr)
        if z3.is_not(expr):
            self.known[expr.arg(0).get_id()] = False
        else:
            self.known[expr.get_id()] = True

    def _check(self, *extra):
        t = _perf()
        try:
            r = self.solver.check(*extra)
        except z3.Z3Exception as ex:
            raise Inconclusive("z3 exception: %s" % ex)
        self.stats.solver_time_s += _perf() - t
        if r == z3.unknown:
            raise Inconclusive("solver returned unknown: %s" % self.solver.reason_unknown())
        return r == z3.sat

    def _maybe_cut(self):
        if self.cut is not None and self.cut != "marker" and self.pos >= self.cut and self.pos >= len(self.decisions):
            raise Cut()

    def shard_point(self):
        """Harness-chosen sharding boundary (used with ``max_depth='marker'``)."""
        if self.cut == "marker" and self.pos >= len(self.decisions):
            raise Cut()

    def branch(self, expr):
        expr = z3.simplify(expr)
        if z3.is_true(expr):
            return True
        if z3.is_false(expr):
            return False
        k = expr.get_id()
        if k in self.known:
            return self.known[k]
        if z3.is_not(expr) and expr.arg(0).get_id() in self.known:
            return not self.known[expr.arg(0).get_id()]
        if self.pos < len(self.decisions):
            taken = self.decisions[self.pos].outcome
            if not isinstance(taken, bool):
                # the program did not ask the same questions as on the run that recorded this prefix: the harness is not
                # deterministic here (never a property of the code under test)
                raise Inconclusive("replay diverged at decision %d: a Boolean fork meets the recorded value %r" % (self.pos, taken))
            self.pos += 1
            self._assume(expr if taken else z3.Not(expr))
            return taken
        free = (z3.is_const(expr) and expr.decl().kind() == z3.Z3_OP_UNINTERPRETED
                and k not in self.entangled and z3.is_bool(expr))
        if free:
            alts = [True, False]
            self.stats.choice_forks += 1
        else:
            self.stats.feasibility_queries += 2
            alts = []
            if self._check(expr):
                alts.append(True)
            if self._check(z3.Not(expr)):
                alts.append(False)
            if not alts:
                raise PathAbort()
            if len(alts) == 2:
                self.stats.solver_forks += 1
        if len(alts) == 2:
            self.stats.forks += 1
        self.decisions.append(Decision(alts))
        self.pos += 1
        taken = alts[0]
        self._assume(expr if taken else z3.Not(expr))
        self._maybe_cut()
        return taken

    def concretize(self, e):
        """Fix the value of an integer term by a multi-way fork whose
        alternatives are discovered lazily from solver models; every value of
        the (finite) domain is eventually visited, the values already visited
        are recorded in the decision so replay is independent of model order."""
        if isinstance(e, int):
            return e
        e = z3.simplify(e)
        if z3.is_int_value(e):
            return e.as_long()
        eid = e.get_id()
        if eid in self.pinned:
            return self.pinned[eid]
        if self.pos < len(self.decisions):
            d = self.decisions[self.pos]
            if d.i < len(d.alts):
                self.pos += 1
                self._assume(e == d.alts[d.i])
                self.pinned[eid] = d.alts[d.i]
                return d.alts[d.i]
            # look for a value not tried yet
            self.stats.model_queries += 1
            if not self._check(*[e != a for a in d.alts]):
                d.done = True
                self.pos += 1
                raise PathAbort()
            self.solver.push()
            for a in d.alts:
                self.solver.add(e != a)
            self._check()
            v = self.solver.model().eval(e, model_completion=True).as_long()
            self.solver.pop()
            d.alts.append(v)
            self.stats.forks += 1
            self.stats.solver_forks += 1
            self.pos += 1
            self._assume(e == v)
            self.pinned[eid] = v
            self._maybe_cut()
            return v
        self.stats.model_queries += 1
        if not self._check():
            raise PathAbort()
        v = self.solver.model().eval(e, model_completion=True).as_long()
        d = Decision([v], conc=True)
        self.decisions.append(d)
        self.pos += 1
        self._assume(e == v)
        self.pinned[eid] = v
        self._maybe_cut()
        return v

    def assume(self, cond):
        """Restrict the path to ``cond`` (placed *before* the code it constrains).
        Returns False (and aborts the path) if infeasible."""
        if isinstance(cond, bool):
            if not cond:
                raise PathAbort()
            return
        e = _lift_bool(cond)
        self.stats.feasibility_queries += 1
        if not self._check(e):
            raise PathAbort()
        # atoms of an assumed formula are no longer free (the fork shortcut must not apply to them)
        stack = [e]
        seen = set()
        while stack:
            x = stack.pop()
            i = x.get_id()
            if i in seen:
                continue
            seen.add(i)
            if z3.is_const(x) and x.decl().kind() == z3.Z3_OP_UNINTERPRETED:
                self.entangled.add(i)
            else:
                stack.extend(x.children())
        self._assume(e)

    # ---- assertions
    def model_values(self):
        if not self._check():
            return {}
        m = self.solver.model()
        out = {}
        for name, v in self.vars.items():
            val = m.eval(v, model_completion=True)
            if z3.is_int_value(val):
                out[name] = val.as_long()
            else:
                out[name] = z3.is_true(val)
        return out

    def require(self, cond, sig, detail=""):
        """Assert ``cond`` for every value of the current path."""
        self.path_obligations += 1
        if not is_sym(cond) and not isinstance(cond, z3.ExprRef):
            self.stats.assertions_concrete += 1
            if not cond:
                raise Violation(sig, detail, self.model_values(), self.outcomes())
            self.stats.assertions_discharged += 1
            return
        e = z3.simplify(_lift_bool(cond))
        if z3.is_true(e):
            self.stats.assertions_concrete += 1
            self.stats.assertions_discharged += 1
            return
        self.stats.assertion_queries += 1
        self.solver.push()
        try:
            self.solver.add(z3.Not(e))
            if self._check():
                m = self.solver.model()
                vals = {}
                for name, v in self.vars.items():
                    val = m.eval(v, model_completion=True)
                    vals[name] = val.as_long() if z3.is_int_value(val) else z3.is_true(val)
                raise Violation(sig, detail, vals, self.outcomes())
        finally:
            self.solver.pop()
        self.stats.assertions_discharged += 1

    def goal(self, name):
        self.goals.add(name)

    def note(self, key, value):
        self.notes[key] = value

    def outcomes(self):
        return [d.outcome for d in self.decisions[:self.pos] if d.i < len(d.alts)]

    # ---- exploration
    def explore(self, fn, on_path=None, max_depth=None, max_paths=None, deadline=None):
        """Run ``fn(self)`` once per feasible path.  ``on_path(engine, result,
        violation)`` is called after each.  Returns (frontier, exhausted)."""
        frontier = []
        self.cut = max_depth
        while True:
            self._reset_path()
            result = None
            violation = None
            aborted = False
            try:
                result = fn(self)
            except PathAbort:
                aborted = True
                self.stats.infeasible_paths += 1
            except Cut:
                frontier.append(self.outcomes())
                self.stats.cuts += 1
                aborted = True
            except Violation as v:
                violation = v
            if not aborted:
                self.stats.paths += 1
                if on_path is not None:
                    if on_path(self, result, violation) is True:
                        return frontier, False
            # backtrack
            del self.decisions[self.pos:]
            while len(self.decisions) > self.nfixed:
                d = self.decisions[-1]
                if d.conc:
                    if d.done:
                        self.decisions.pop()
                        continue
                    d.i += 1      # i == len(alts): ask the solver for a new value
                    break
                if d.i >= len(d.alts) - 1:
                    self.decisions.pop()
                    continue
                d.i += 1
                break
            if len(self.decisions) <= self.nfixed:
                return frontier, True
            if max_paths is not None and self.stats.paths >= max_paths:
                return frontier, False
            if deadline is not None and _perf() > deadline:
                return frontier, False


class ConcreteEngine:
    """Replay mode: plain ``int``/``bool`` values taken from a solver model, the
    same harness and stubs, no z3 anywhere."""
    symbolic = False

    def __init__(self, values):
        self.values = dict(values)
        self.goals = set()
        self.notes = {}
        self.stats = Stats()

    def fresh_bool(self, name):
        return bool(self.values.get(name, False))

    def fresh_int(self, name, lo=None, hi=None, opaque=True):
        v = self.values.get(name)
        if v is None:
            v = lo if lo is not None else 0
        return int(v)

    def choose(self, name, n):
        v = int(self.values.get(name, 0))
        return v if 0 <= v < n else 0

    def flag(self, name):
        return bool(self.values.get(name, False))

    def concretize(self, e):
        if isinstance(e, z3.ExprRef):
            return z3.simplify(e).as_long()
        return int(e)

    def lift(self, expr):
        r = z3.simplify(expr)
        if z3.is_true(r):
            return True
        if z3.is_false(r):
            return False
        raise Inconclusive("concrete replay met a non-constant term: %s" % r)

    def term(self, v):
        return z3.BoolVal(bool(v))

    def assume(self, cond):
        if not cond:
            raise PathAbort()

    def require(self, cond, sig, detail=""):
        if not cond:
            raise Violation(sig, detail, dict(self.values), [])

    def goal(self, name):
        self.goals.add(name)

    def note(self, key, value):
        self.notes[key] = value

    def shard_point(self):
        pass

    def run(self, fn):
        """Returns (result, violation-or-None)."""
        try:
            return fn(self), None
        except Violation as v:
            return None, v
        except PathAbort:
            return None, None
