"""SMT string lemmas generated from the running code.

* sre -> z3 regular expressions with CPython semantics (``$`` = end or before a
  final newline, ``\\Z`` = end, ``match`` anchored at the start only);
* concolic extraction of a string-taking function's accept/reject sets
  (generational search over logged string literals);
* language-difference queries (z3) and word-equation queries (cvc5 binary).
"""
import contextlib
import importlib
import os
import re
import re._constants as sc
import re._parser as sp
import subprocess
import tempfile
import time

import z3

_perf = time.perf_counter


class Unsupported(Exception):
    pass


# --------------------------------------------------------------------------
# sre -> z3
# --------------------------------------------------------------------------

def _S(x):
    return z3.StringVal(x)


EPS = z3.Re(_S(""))


def ANY():
    return z3.AllChar(z3.ReSort(z3.StringSort()))


def _lit(c):
    return z3.Re(_S(chr(c)))


CATEGORIES = {
    sc.CATEGORY_DIGIT: lambda: z3.Range("0", "9"),
}


def _in(av):
    alts = []
    neg = False
    for o, a in av:
        if o is sc.NEGATE:
            neg = True
        elif o is sc.LITERAL:
            alts.append(_lit(a))
        elif o is sc.RANGE:
            alts.append(z3.Range(chr(a[0]), chr(a[1])))
        elif o is sc.CATEGORY and a in CATEGORIES:
            # ASCII digits only would be wrong for str patterns (\d is Unicode): refuse
            raise Unsupported("category %s" % a)
        else:
            raise Unsupported("class item %s" % (o,))
    r = z3.Union(*alts) if len(alts) > 1 else alts[0]
    if neg:
        r = z3.Intersect(ANY(), z3.Complement(r))
    return r


def _items(items):
    parts = [_tr(op, av) for op, av in items]
    if not parts:
        return EPS
    return z3.Concat(*parts) if len(parts) > 1 else parts[0]


def _tr(op, av):
    if op is sc.LITERAL:
        return _lit(av)
    if op is sc.NOT_LITERAL:
        return z3.Intersect(ANY(), z3.Complement(_lit(av)))
    if op is sc.ANY:
        # '.' without DOTALL: anything but newline
        return z3.Intersect(ANY(), z3.Complement(_lit(10)))
    if op is sc.IN:
        return _in(av)
    if op in (sc.MAX_REPEAT, sc.MIN_REPEAT):
        lo, hi, sub = av
        r = _items(sub)
        if hi is sc.MAXREPEAT:
            if lo == 0:
                return z3.Star(r)
            if lo == 1:
                return z3.Plus(r)
            return z3.Concat(*([r] * lo + [z3.Star(r)]))
        return z3.Loop(r, lo, hi)
    if op is sc.SUBPATTERN:
        if av[1] or av[2]:
            raise Unsupported("inline flags")
        return _items(av[3])
    if op is sc.BRANCH:
        return z3.Union(*[_items(b) for b in av[1]])
    raise Unsupported("regex construct %s" % (op,))


def language(pattern, mode, flags=0):
    """z3 regex for { s | getattr(re.compile(pattern), mode)(s) is not None }."""
    if flags & ~re.UNICODE:
        raise Unsupported("regex flags %r" % flags)
    if not isinstance(pattern, str):
        raise Unsupported("bytes pattern")
    items = list(sp.parse(pattern))
    head = None
    tail = None
    if items and items[0] == (sc.AT, sc.AT_BEGINNING) or items and items[0] == (sc.AT, sc.AT_BEGINNING_STRING):
        items = items[1:]
        head = EPS
    if items and items[-1] == (sc.AT, sc.AT_END):
        items = items[:-1]
        tail = z3.Union(EPS, z3.Re(_S("\n")))        # `$`: at the end, or just before a final newline
    elif items and items[-1] == (sc.AT, sc.AT_END_STRING):
        items = items[:-1]
        tail = EPS
    for op, av in items:
        if op is sc.AT:
            raise Unsupported("anchor inside the pattern")
    body = _items(items)
    if mode == "fullmatch":
        # the whole string must be consumed; a final `$` cannot consume the newline it
        # tolerates, so fullmatch means exactly the body
        return body
    if mode == "match":
        h = EPS
        t = tail if tail is not None else z3.Star(ANY())
        return z3.Concat(h, body, t)
    if mode == "search":
        h = head if head is not None else z3.Star(ANY())
        t = tail if tail is not None else z3.Star(ANY())
        return z3.Concat(h, body, t)
    raise Unsupported("mode %s" % mode)


def top_level_parts(pattern):
    """[(group name or None, z3 regex)] for the top-level sequence of a pattern
    and the end anchor kind ('$', 'Z' or None)."""
    items = list(sp.parse(pattern))
    groupindex = {v: k for k, v in sp.parse(pattern).state.groupdict.items()}
    end = None
    if items and items[0][0] is sc.AT:
        items = items[1:]
    if items and items[-1] == (sc.AT, sc.AT_END):
        items, end = items[:-1], "$"
    elif items and items[-1] == (sc.AT, sc.AT_END_STRING):
        items, end = items[:-1], "Z"
    parts = []
    for op, av in items:
        name = None
        if op is sc.SUBPATTERN:
            name = groupindex.get(av[0])
        parts.append((name, _tr(op, av)))
    return parts, end


# --------------------------------------------------------------------------
# concolic strings
# --------------------------------------------------------------------------

class Trace:
    def __init__(self, var):
        self.var = var
        self.lits = []            # (z3 Bool, observed truth)
        self.problems = []
        self.derived_made = False

    def log(self, expr, truth):
        self.lits.append((expr, bool(truth)))
        return truth


def _empty_if(L):
    """Sigma* if the empty string is in L, the empty language otherwise (decided by z3)."""
    sol = z3.Solver()
    sol.add(z3.InRe(z3.StringVal(""), L))
    return z3.Star(ANY()) if sol.check() == z3.sat else z3.Empty(z3.ReSort(z3.StringSort()))


_MODELLED = {"startswith", "endswith", "lstrip", "rstrip", "strip", "removeprefix", "removesuffix"}
_PASS = {"__class__", "__str__", "__repr__", "__format__", "__hash__", "__len__", "__eq__", "__ne__", "__contains__",
         "__new__", "__init__", "__getattribute__", "__dir__", "__doc__", "__reduce__", "__reduce_ex__", "__sizeof__",
         "__subclasshook__", "__init_subclass__", "__setattr__", "__delattr__", "__getnewargs__", "__iter__",
         "__getitem__", "__add__", "__radd__", "__mod__", "__rmod__", "__mul__", "__rmul__", "__lt__", "__le__",
         "__gt__", "__ge__", "encode"}


class TrackedStr(str):
    """The input under analysis: a real ``str`` whose inspecting methods log the
    corresponding z3 literal; anything not modelled marks the run inconclusive."""

    def __new__(cls, value, trace, tf=None):
        o = super().__new__(cls, value)
        o._t = trace
        # maps a language of *this* string to the language of the original input
        o._tf = tf or (lambda L: L)
        return o

    def _member(self, L, truth):
        return self._t.log(z3.InRe(self._t.var, self._tf(L)), truth)

    def _derive(self, value, tf):
        outer = self._tf
        return TrackedStr(value, self._t, lambda L: outer(tf(L)))

    def startswith(self, prefix, *a):
        r = str.startswith(self, prefix, *a)
        if a or not isinstance(prefix, str):
            self._t.problems.append("startswith with offsets/tuple")
            return r
        return self._member(z3.Concat(z3.Re(_S(prefix)), z3.Star(ANY())), r)

    def endswith(self, suffix, *a):
        r = str.endswith(self, suffix, *a)
        if a or not isinstance(suffix, str):
            self._t.problems.append("endswith with offsets/tuple")
            return r
        return self._member(z3.Concat(z3.Star(ANY()), z3.Re(_S(suffix))), r)

    def __eq__(self, o):
        r = str.__eq__(self, o)
        if isinstance(o, str):
            return self._member(z3.Re(_S(str(o))), r is True)
        return r

    # ---- derived strings whose languages map back to the input by a regular transformation
    @staticmethod
    def _chars(chars):
        if chars is None:
            chars = " \t\n\r\x0b\x0c"       # ASCII whitespace only: wider Unicode whitespace is not modelled
        cs = [z3.Re(_S(c)) for c in chars]
        return z3.Union(*cs) if len(cs) > 1 else cs[0]

    def lstrip(self, chars=None):
        if chars is None:
            self._t.problems.append("lstrip() of Unicode whitespace")
        C = self._chars(chars)
        return self._derive(str.lstrip(self, chars),
                            lambda L: z3.Concat(z3.Star(C), z3.Intersect(L, z3.Complement(z3.Concat(C, z3.Star(ANY()))))))

    def rstrip(self, chars=None):
        if chars is None:
            self._t.problems.append("rstrip() of Unicode whitespace")
        C = self._chars(chars)
        return self._derive(str.rstrip(self, chars),
                            lambda L: z3.Concat(z3.Intersect(L, z3.Complement(z3.Concat(z3.Star(ANY()), C))), z3.Star(C)))

    def strip(self, chars=None):
        return self.lstrip(chars).rstrip(chars)

    def removeprefix(self, p):
        P = z3.Concat(z3.Re(_S(p)), z3.Star(ANY()))
        return self._derive(str.removeprefix(self, p),
                            lambda L: z3.Union(z3.Concat(z3.Re(_S(p)), L), z3.Intersect(L, z3.Complement(P))))

    def removesuffix(self, p):
        P = z3.Concat(z3.Star(ANY()), z3.Re(_S(p)))
        return self._derive(str.removesuffix(self, p),
                            lambda L: z3.Union(z3.Concat(L, z3.Re(_S(p))), z3.Intersect(L, z3.Complement(P))))

    def __getitem__(self, i):
        if isinstance(i, slice) and i.step in (None, 1) and i.stop is None and isinstance(i.start, int) and i.start >= 0:
            k = i.start
            def tf(L, k=k):
                long = z3.Concat(z3.Loop(ANY(), k, k), L) if k else L
                if k == 0:
                    return long
                # strings shorter than k give "": they are in the preimage iff the empty string is in L
                short = z3.Intersect(z3.Loop(ANY(), 0, k - 1), _empty_if(L))
                return z3.Union(long, short)
            return self._derive(str.__getitem__(self, i), tf)
        self._t.problems.append("indexing/slicing of the input")
        return str.__getitem__(self, i)

    def __ne__(self, o):
        r = self.__eq__(o)
        return (not r) if isinstance(r, bool) else r

    __hash__ = str.__hash__

    def __contains__(self, sub):
        r = str.__contains__(self, sub)
        return self._member(z3.Concat(z3.Star(ANY()), z3.Re(_S(sub)), z3.Star(ANY())), r)

    def __len__(self):
        n = str.__len__(self)
        self._member(z3.Loop(ANY(), n, n) if n else EPS, True)
        return n

    def __iter__(self):
        self._t.problems.append("iteration over the input")
        return str.__iter__(self)


def _unmodelled(name):
    real = getattr(str, name)

    def method(self, *a, **kw):
        self._t.problems.append("unmodelled str.%s on the input" % name)
        return real(self, *a, **kw)
    return method


for _n in dir(str):
    if _n in _MODELLED or _n in _PASS:
        continue
    if callable(getattr(str, _n)):
        setattr(TrackedStr, _n, _unmodelled(_n))


class DerivedStr(str):
    """A piece of the input returned by match.group(); rejections decided after
    such a piece exists cannot be modelled."""

    def __new__(cls, value, trace):
        o = super().__new__(cls, value)
        o._t = trace
        trace.derived_made = True
        return o


class MatchShim:
    def __init__(self, m, trace):
        self._m, self._t = m, trace

    def group(self, *a):
        r = self._m.group(*a)
        if isinstance(r, str):
            return DerivedStr(r, self._t)
        return r

    def __getattr__(self, name):
        return getattr(self._m, name)


class PatternShim:
    def __init__(self, real, active):
        self._real = real
        self._active = active    # list holding the current Trace or None

    def _do(self, mode, s, *a):
        r = getattr(self._real, mode)(s, *a)
        t = self._active[0]
        if t is None:
            return r
        if isinstance(s, TrackedStr) and not a:
            try:
                L = language(self._real.pattern, mode, self._real.flags)
            except Unsupported as ex:
                t.problems.append("regex not translated: %s" % ex)
                return r
            t.log(z3.InRe(t.var, s._tf(L)), r is not None)
            t.patterns = getattr(t, "patterns", []) + [(self._real.pattern, mode)]
            return MatchShim(r, t) if r is not None else None
        if isinstance(s, DerivedStr):
            t.problems.append("regex applied to a piece of the input")
        elif isinstance(s, str) and a:
            t.problems.append("regex with pos/endpos")
        return r

    def match(self, s, *a):
        return self._do("match", s, *a)

    def fullmatch(self, s, *a):
        return self._do("fullmatch", s, *a)

    def search(self, s, *a):
        return self._do("search", s, *a)

    def __getattr__(self, name):
        return getattr(self._real, name)


class ReShim:
    """Stands in for the ``re`` module inside the analysed module."""

    def __init__(self, active):
        self._active = active

    def compile(self, pattern, flags=0):
        return PatternShim(re.compile(pattern, flags), self._active)

    def match(self, pattern, s, flags=0):
        return self.compile(pattern, flags).match(s)

    def fullmatch(self, pattern, s, flags=0):
        return self.compile(pattern, flags).fullmatch(s)

    def search(self, pattern, s, flags=0):
        return self.compile(pattern, flags).search(s)

    def __getattr__(self, name):
        return getattr(re, name)


@contextlib.contextmanager
def shimmed(module_names, active):
    """Replace ``re`` and every compiled pattern in the given loaded modules."""
    saved = []
    try:
        for mn in module_names:
            mod = importlib.import_module(mn)
            for k, v in list(vars(mod).items()):
                if v is re:
                    saved.append((mod, k, v))
                    setattr(mod, k, ReShim(active))
                elif isinstance(v, re.Pattern):
                    saved.append((mod, k, v))
                    setattr(mod, k, PatternShim(v, active))
        yield
    finally:
        for mod, k, v in saved:
            setattr(mod, k, v)


class Extraction:
    def __init__(self):
        self.var = z3.String("s")
        self.paths = []           # (lits, accepted, witness)
        self.queries = 0
        self.solver_s = 0.0
        self.problems = []
        self.patterns = []

    def _formula(self, accepted):
        fs = []
        for lits, acc, _ in self.paths:
            if acc == accepted:
                fs.append(z3.And(*[e if b else z3.Not(e) for e, b in lits]) if lits else z3.BoolVal(True))
        return z3.Or(*fs) if fs else z3.BoolVal(False)

    def _language(self, accepted):
        """The same set as one regular expression (all literals are memberships
        of the one variable, so paths are intersections and the set is a union)."""
        alts = []
        for lits, acc, _ in self.paths:
            if acc != accepted:
                continue
            rs = []
            for e, b in lits:
                assert e.decl().kind() == z3.Z3_OP_SEQ_IN_RE
                L = e.arg(1)
                rs.append(L if b else z3.Complement(L))
            if not rs:
                alts.append(z3.Star(ANY()))
            else:
                alts.append(z3.Intersect(*rs) if len(rs) > 1 else rs[0])
        if not alts:
            return z3.Empty(z3.ReSort(z3.StringSort()))
        return z3.Union(*alts) if len(alts) > 1 else alts[0]

    @property
    def accept_re(self):
        return self._language(True)

    @property
    def reject_re(self):
        return self._language(False)

    @property
    def accept(self):
        return self._formula(True)

    @property
    def reject(self):
        return self._formula(False)


def solve(constraints, var, timeout_ms=20000, stats=None):
    s = z3.Solver()
    s.set("timeout", timeout_ms)
    s.add(*constraints)
    t = _perf()
    r = s.check()
    if stats is not None:
        stats.queries += 1
        stats.solver_s += _perf() - t
    if r == z3.sat:
        return "sat", s.model().eval(var, model_completion=True).as_string()
    return str(r), None


def z3_unescape(s):
    """z3 prints non-printable characters as \\u{..}."""
    return re.sub(r"\\u\{([0-9a-fA-F]+)\}", lambda m: chr(int(m.group(1), 16)), s)


def extract(call, module_names, seeds=("a", ""), reject_exc=(Exception,), max_paths=64):
    """Generational search: the accept/reject sets of ``call(str)`` as formulas
    over one string variable.  ``call`` returns normally / truthy = accept,
    returns False or raises ``reject_exc`` = reject."""
    ex = Extraction()
    active = [None]
    work = list(seeds)
    tried = set()
    seen = set()
    with shimmed(module_names, active):
        while work:
            w = work.pop()
            t = Trace(ex.var)
            active[0] = t
            try:
                try:
                    r = call(TrackedStr(w, t))
                    acc = (r is not False)
                except reject_exc:
                    acc = False
                    if t.derived_made:
                        t.problems.append("rejected after a piece of the input was extracted")
            finally:
                active[0] = None
            ex.problems.extend(t.problems)
            ex.patterns.extend(getattr(t, "patterns", []))
            key = tuple((e.sexpr(), b) for e, b in t.lits)
            if key in seen:
                continue
            seen.add(key)
            ex.paths.append((t.lits, acc, w))
            if len(ex.paths) > max_paths:
                ex.problems.append("more than %d paths" % max_paths)
                break
            for i in range(len(t.lits)):
                pre = t.lits[:i]
                e, b = t.lits[i]
                k = tuple((x.sexpr(), y) for x, y in pre) + ((e.sexpr(), not b),)
                if k in tried:
                    continue
                tried.add(k)
                cs = [x if y else z3.Not(x) for x, y in pre] + [z3.Not(e) if b else e]
                r, wit = solve(cs, ex.var, stats=ex)
                if r == "sat":
                    work.append(z3_unescape(wit))
                elif r != "unsat":
                    ex.problems.append("solver %s while negating a branch" % r)
    return ex


# --------------------------------------------------------------------------
# cvc5 (word equations)
# --------------------------------------------------------------------------

def cvc5_check(smt2_text, timeout_s=60):
    """Run the cvc5 binary on SMT-LIB text; returns (verdict, seconds, model text)."""
    with tempfile.NamedTemporaryFile("w", suffix=".smt2", delete=False, dir=os.environ.get("VERIF_SCRATCH", None)) as fh:
        fh.write(smt2_text)
        path = fh.name
    t = _perf()
    try:
        p = subprocess.run(["cvc5", "--strings-exp", "--produce-models", "--tlimit=%d" % (timeout_s * 1000), path],
                           capture_output=True, text=True, timeout=timeout_s + 10)
        out = p.stdout.strip()
        err = p.stderr.strip()
    except subprocess.TimeoutExpired:
        out, err = "timeout", ""
    finally:
        os.unlink(path)
    dt = _perf() - t
    first = out.splitlines()[0] if out else ""
    if first == "unsat" and out.count("(error") == 1 and "Cannot get value" in out:
        return "unsat", dt, out       # the only error is the get-value after unsat
    if "(error" in out or "(error" in err:
        return "error: " + (out + err)[:200], dt, out
    if first in ("sat", "unsat"):
        return first, dt, out
    return "unknown(%s)" % (first or err[:80]), dt, out


def to_smt2(constraints, get=()):
    s = z3.Solver()
    s.add(*constraints)
    txt = s.to_smt2()
    txt = "(set-logic QF_SLIA)\n" + txt
    if get:
        txt = txt.replace("(check-sat)", "(check-sat)\n(get-value (%s))" % " ".join(get))
    return txt
