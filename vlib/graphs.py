"""Symbolic task graphs and the schedule policy shared by the run-time
properties (C01-C04, C07, C09, C16)."""
import itertools
import os

from . import fakeos, hrun
from .fakeos import StatusExited, StatusSignaled
from .hrun import TaskSpec, SUBPROCESS_KINDS

ALL_KINDS = ("run_experiment", "run_command", "group", "combine")


def sym_graph(g, n, kinds=ALL_KINDS, orders="rev", par=True, pkgs=None):
    """n task definitions t0..t{n-1}; edge i->j (j depends on i) for i<j is a
    solver Boolean; the listing order of each deps list is reversed or not
    (``orders='rev'``) or any permutation (``orders='all'``).  Root is t{n-1}."""
    edges = {}
    for j in range(n):
        for i in range(j):
            edges[(i, j)] = g.flag("e%d_%d" % (i, j))
    specs = []
    for j in range(n):
        deps = [i for i in range(j) if edges[(i, j)]]
        if len(deps) > 1:
            if orders == "all":
                perms = list(itertools.permutations(deps))
                deps = list(perms[g.choose("ord%d" % j, len(perms))])
            elif orders == "rev":
                if g.flag("rev%d" % j):
                    deps = list(reversed(deps))
        kind = kinds[g.choose("k%d" % j, len(kinds))] if len(kinds) > 1 else kinds[0]
        p = False
        if kind in SUBPROCESS_KINDS and par:
            p = g.flag("p%d" % j)
        pkg = ""
        if pkgs:
            pkg = pkgs[g.choose("pkg%d" % j, len(pkgs))] if len(pkgs) > 1 else pkgs[0]
        specs.append(TaskSpec("t%d" % j, kind, [], par=p, pkg=pkg))
        specs[-1].dep_idx = deps
    for s in specs:
        s.deps = []
        for i in s.dep_idx:
            d = specs[i]
            s.deps.append((":%s" % d.name) if d.pkg == s.pkg else d.ident)
    return specs


def closure(specs, j):
    """Indices transitively needed by task j (excluding j)."""
    seen = set()
    st = list(specs[j].dep_idx)
    while st:
        x = st.pop()
        if x in seen:
            continue
        seen.add(x)
        st.extend(specs[x].dep_idx)
    return seen


def reachable(specs, root):
    return closure(specs, root) | {root}


def needed(specs, root, cached):
    """Tasks that must execute: the closure, cut at reusable cached results."""
    out = set()
    st = [root]
    while st:
        x = st.pop()
        if x in out or x in cached:
            continue
        out.add(x)
        st.extend(specs[x].dep_idx)
    return out


class SymSched(fakeos.Sched):
    """Every choice the environment can make is a solver variable:
    which running child exits next, its exit status (one symbolic integer per
    child, or a signal number), whether a launch fails."""

    def __init__(self, g, max_fail=None, signals=False, launch_failures=False, all_ok=False,
                 on_spawn=None, batch=False):
        self.g = g
        self.k = 0
        self.fails = 0
        self.max_fail = max_fail
        self.signals = signals
        self.launch_failures = launch_failures
        self.all_ok = all_ok
        self._on_spawn = on_spawn
        self.outcome = {}         # pid -> ("exited", rc) | ("signaled", sig)
        self.launch_failed = []   # task names
        self.nspawn = 0
        self.batch = batch
        self.nb = 0

    def exits_now(self, kernel, point, running):
        """Batched exits: with ``batch`` a second child may exit before the one
        SIGCHLD is delivered (kernel in adversarial mode, otherwise eager)."""
        if not self.batch or point != "read_batch":
            return []
        self.nb += 1
        if not self.g.flag("bt%d" % self.nb):
            return []
        if len(running) == 1:
            return [running[0]]
        return [running[self.g.choose("btw%d" % self.nb, len(running))]]

    def deliver_now(self, kernel, point):
        return True

    def launch_fails(self, kernel, argv, env):
        if not self.launch_failures:
            return False
        if self.max_fail is not None and self.fails >= self.max_fail:
            return False
        self.nspawn += 1
        if self.g.flag("lf%d" % self.nspawn):
            self.fails += 1
            self.launch_failed.append(env.get("COND_NAME"))
            return True
        return False

    def on_spawn(self, kernel, proc):
        hrun.snapshot_on_spawn(kernel, proc)
        if self._on_spawn is not None:
            self._on_spawn(kernel, proc)

    def pick_exit(self, kernel, running):
        n = len(running)
        if n == 1:
            return running[0]
        self.k += 1
        return running[self.g.choose("x%d" % self.k, n)]

    def status_for(self, kernel, proc):
        if self.all_ok or (self.max_fail is not None and self.fails >= self.max_fail):
            self.outcome[proc.pid] = ("exited", 0)
            return StatusExited(0)
        if self.signals and self.g.flag("sg%d" % proc.vpid):
            sig = self.g.fresh_int("sig%d" % proc.vpid, 1, 64)
            self.outcome[proc.pid] = ("signaled", sig)
            self.fails += 1
            return StatusSignaled(sig)
        rc = self.g.fresh_int("rc%d" % proc.vpid, 0, 255)
        self.outcome[proc.pid] = ("exited", rc)
        if self.max_fail is not None:
            # the cap needs to know whether this one failed: decide it here
            if rc != 0:
                self.fails += 1
        return StatusExited(rc)

    def ok(self, pid):
        """Symbolic/concrete truth of 'this child exited with status 0'."""
        if pid not in self.outcome:
            return False          # terminated by Conductor (killpg)
        kind, v = self.outcome[pid]
        if kind == "signaled":
            return False
        return v == 0


def run_graph(g, specs, root, *, again=False, jobs=None, stop_early=False, cached=(), sched=None,
              env=None, config="disable_git = true\n", clock=None, adversarial=False, check=False,
              at_least=None, this_commit=False, proj=None, keep=False, unrelated=0):
    """Render the project, run the real ``cond run`` over the fake kernel."""
    import conductor.cli.run as cli_run
    own = proj is None
    if own:
        proj = hrun.Project(config=config)
        proj.write_tasks(specs)
        for j in cached:
            proj.add_version(specs[j].ident, 100 + j)
    kernel = fakeos.Kernel(sched or SymSched(g), adversarial=adversarial,
                           clock=clock if clock is not None else fakeos.Clock(), unrelated=unrelated)
    ns = hrun.run_ns(task_identifier=specs[root].ident, again=again, jobs=jobs, stop_early=stop_early,
                     check=check, at_least=at_least, this_commit=this_commit)
    try:
        res = hrun.invoke(cli_run.main, ns, str(proj.root), kernel, env=env)
    except BaseException:
        if own and not keep:
            proj.cleanup()
        raise
    res.proj = proj
    return res


def describe(specs, root=None):
    return ["%s %s deps=%s%s" % (s.kind, s.ident, s.deps, " par" if s.par else "") for s in specs]


def output_writer(kernel, proc):
    """Fake task body: leave one file in $COND_OUT (so combine has something to link)."""
    out = proc.env.get("COND_OUT")
    if out and os.path.isdir(out):
        with open(os.path.join(out, "result.txt"), "w") as fh:
            fh.write("by %s pid %d\n" % (proc.name, proc.vpid))


def crash_check(g, res, specs):
    """Anything but a clean exit / ERROR exit is an internal error of cond."""
    if isinstance(res.status, str):
        g.require(False, "run:crash:" + res.status,
                  "cond run died with %r; %s" % (res.exc, describe(specs)))


def spawned_by_task(res, specs):
    idx = {s.name: j for j, s in enumerate(specs)}
    out = {}
    for p in res.kernel.tasks():
        out.setdefault(idx.get(p.name, p.name), []).append(p)
    return out


def ident_index(specs):
    return {s.ident: j for j, s in enumerate(specs)}
