"""H-run: render a project, call Conductor's real CLI entry points in-process
over the fake kernel, and collect the observable trace."""
import argparse
import contextlib
import gc
import io
import os
import pathlib
import re
import shutil
import signal
import sqlite3
import sys
import tempfile
import threading
import traceback
import warnings

from . import fakeos
from .symx import Inconclusive

warnings.simplefilter("ignore", ResourceWarning)

SCRATCH_BASE = os.environ.get("VERIF_SCRATCH", "/dev/shm" if os.path.isdir("/dev/shm") else tempfile.gettempdir())
_ANSI = re.compile(r"\x1b\[[0-9;]*m")

SUBPROCESS_KINDS = ("run_experiment", "run_command")


def strip_ansi(s):
    return _ANSI.sub("", s)


# --------------------------------------------------------------------------
# projects
# --------------------------------------------------------------------------

class TaskSpec:
    def __init__(self, name, kind, deps=(), par=False, run="true", args=None, options=None, pkg=""):
        self.name = name
        self.kind = kind
        self.deps = list(deps)          # strings as written in the COND file
        self.par = par
        self.run = run
        self.args = args
        self.options = options
        self.pkg = pkg                  # "" or "a/b"

    @property
    def ident(self):
        return "//%s:%s" % (self.pkg, self.name)

    def render(self):
        if self.kind in SUBPROCESS_KINDS:
            parts = ['name=%r' % self.name, 'run=%r' % self.run]
            if self.par:
                parts.append("parallelizable=True")
            if self.args is not None:
                parts.append("args=%r" % (self.args,))
            if self.options is not None:
                parts.append("options=%r" % (self.options,))
            parts.append("deps=%r" % (self.deps,))
            return "%s(%s)" % (self.kind, ", ".join(parts))
        return "%s(name=%r, deps=%r)" % (self.kind, self.name, self.deps)


PROJECT_PREFIX = os.environ.get("VERIF_PROJECT_PREFIX", "proj \u00e9 x")


class Project:
    def __init__(self, scratch_root=None, config="disable_git = true\n", name=None):
        base = scratch_root or SCRATCH_BASE
        if name is not None:
            self.root = pathlib.Path(base, name)
            self.root.mkdir(parents=True)
        else:
            # every scratch project lives under a path with a space, a non-ASCII character and a colon-free name:
            # quoting / encoding mistakes in how Conductor passes paths to bash, tar, sqlite or git show up everywhere
            self.root = pathlib.Path(tempfile.mkdtemp(prefix=PROJECT_PREFIX, dir=base))
        self.write("cond_config.toml", config)

    def write(self, rel, text):
        p = self.root / rel
        p.parent.mkdir(parents=True, exist_ok=True)
        p.write_text(text)
        return p

    def write_tasks(self, specs, prelude=""):
        by_pkg = {}
        for s in specs:
            by_pkg.setdefault(s.pkg, []).append(s)
        for pkg, ss in by_pkg.items():
            self.write(os.path.join(pkg, "COND"), prelude + "\n".join(s.render() for s in ss) + "\n")

    @property
    def out(self):
        return self.root / "cond-out"

    def index_rows(self):
        """Rows visible to a fresh sqlite connection (None: no usable index)."""
        p = self.out / "version_index.sqlite"
        if not p.exists():
            return []
        conn = sqlite3.connect(str(p))
        try:
            return sorted(conn.execute(
                "SELECT task_identifier, timestamp, git_commit_hash, has_uncommitted_changes FROM version_index"
            ).fetchall(), key=lambda r: (r[0], r[1]))
        except sqlite3.OperationalError:
            try:
                # an index still in the on-disk format of Conductor <= 0.4.0 (no dirty flag, commit never known): shown as
                # the upgrade would record it
                return sorted(conn.execute("SELECT task_identifier, timestamp, NULL, 0 FROM version_index").fetchall(),
                              key=lambda r: (r[0], r[1]))
            except sqlite3.OperationalError:
                return []
        finally:
            conn.close()

    def add_version(self, ident, ts, commit=None, dirty=False, files=None):
        """Record a version the way an earlier successful run would have left it
        (row + directory), using Conductor's own index code."""
        from conductor.execution.version_index import VersionIndex, Version
        from conductor.task_identifier import TaskIdentifier
        import conductor.filename as f
        self.out.mkdir(exist_ok=True)
        vi = VersionIndex.create_or_load(self.out / "version_index.sqlite")
        tid = TaskIdentifier.from_str(ident)
        v = Version(ts, commit, dirty)
        vi.insert_output_version(tid, v)
        vi.commit_changes()
        vi = None          # dropping the object closes its connection (no private field is touched)
        d = self.out / tid.path / f.task_output_dir(tid, v)
        d.mkdir(parents=True, exist_ok=True)
        if files is None:
            files = {"stdout.log": b"", "stderr.log": b"", "result.txt": b"cached %d\n" % ts}
        for rel, data in files.items():
            fp = d / rel
            fp.parent.mkdir(parents=True, exist_ok=True)
            fp.write_bytes(data)
        return d

    def cleanup(self):
        shutil.rmtree(self.root, ignore_errors=True)


def tree_digest(root, exclude=()):
    """Names, types, link targets and bytes of everything under ``root``."""
    import hashlib
    root = pathlib.Path(root)
    out = {}
    if not root.exists():
        return out
    for dirpath, dirnames, filenames in os.walk(root):
        rel_dir = os.path.relpath(dirpath, root)
        for name in sorted(dirnames + filenames):
            p = os.path.join(dirpath, name)
            rel = os.path.normpath(os.path.join(rel_dir, name))
            if any(rel == e or rel.startswith(e + os.sep) for e in exclude):
                continue
            if os.path.islink(p):
                out[rel] = ("link", os.readlink(p))
            elif os.path.isdir(p):
                out[rel] = ("dir", oct(os.stat(p).st_mode & 0o777))
            else:
                with open(p, "rb") as fh:
                    out[rel] = ("file", hashlib.sha256(fh.read()).hexdigest(), oct(os.stat(p).st_mode & 0o777))
        dirnames[:] = [d for d in dirnames if not os.path.islink(os.path.join(dirpath, d))]
    return out


# --------------------------------------------------------------------------
# output capture
# --------------------------------------------------------------------------

class _Buf:
    def __init__(self, parent):
        self.parent = parent

    def write(self, data):
        stall = self.parent.stall
        if stall is not None:
            stall.wait(30)        # a consumer of cond's own output that is slow to read (released by the scenario)
        self.parent.chunks.append((self.parent.now(), bytes(data)))
        return len(data)

    def flush(self):
        pass


ASCII_ONLY_STDIO = False


class TickStream(io.TextIOBase):
    """A text stream that timestamps what is written with the kernel's logical
    clock; ``.buffer`` receives what the tee forwards."""

    def __init__(self, kernel=None):
        super().__init__()
        self.kernel = kernel
        self.parts = []
        self.chunks = []
        self.stall = None
        self.buffer = _Buf(self)

    def now(self):
        return self.kernel.t if self.kernel is not None else 0

    def writable(self):
        return True

    def write(self, s):
        if ASCII_ONLY_STDIO:
            s.encode("ascii")          # a terminal / pipe whose encoding cannot represent the character: UnicodeEncodeError
        self.parts.append((self.now(), s))
        return len(s)

    def flush(self):
        pass

    def isatty(self):
        return False

    def text(self):
        return strip_ansi("".join(s for _, s in self.parts))

    def forwarded(self):
        return b"".join(b for _, b in self.chunks)

    def lines(self):
        """[(t, line)] with t = logical time of the write that completed it."""
        out = []
        cur = ""
        for t, s in self.parts:
            cur += s
            while "\n" in cur:
                line, cur = cur.split("\n", 1)
                out.append((t, strip_ansi(line)))
        if cur:
            out.append((self.now(), strip_ansi(cur)))
        return out


class RunResult:
    def __init__(self):
        self.status = None      # 0, int exit code, or "exc:<Type>"
        self.exc = None
        self.tb = None
        self.error_class = None
        self.stdout = None
        self.stderr = None
        self.kernel = None

    @property
    def out(self):
        return self.stdout.text()

    @property
    def err(self):
        return self.stderr.text()

    def __repr__(self):
        return "<RunResult status=%r>" % (self.status,)


def run_ns(**kw):
    d = dict(task_identifier=None, again=False, at_least=None, this_commit=False,
             stop_early=False, jobs=None, check=False, debug=False)
    d.update(kw)
    return argparse.Namespace(**d)


def _reset_conductor_globals():
    try:
        import conductor.utils.sigchld as sc
        sc.SigchldHelper._Instance = None
    except Exception:
        pass


_COUNT = [0]


class PathTimeout(Inconclusive):
    pass


@contextlib.contextmanager
def watchdog(seconds):
    """Per-path watchdog: a hang is inconclusive, never a pass."""
    def on_alarm(sig, frame):
        raise PathTimeout("path exceeded %ds watchdog" % seconds)
    if threading.current_thread() is not threading.main_thread():
        yield
        return
    old = signal.signal(signal.SIGALRM, on_alarm)
    # repeating: an alarm raised inside a finaliser is discarded by the interpreter
    signal.setitimer(signal.ITIMER_REAL, seconds, 3)
    try:
        yield
    finally:
        signal.setitimer(signal.ITIMER_REAL, 0)
        signal.signal(signal.SIGALRM, old)


def invoke(func, ns, cwd, kernel=None, env=None, stdin_text=None, timeout=25):
    """Call a Conductor CLI entry point (already wrapped by cli_command) the way
    ``python -m conductor`` would, in-process, and capture everything observable.
    """
    res = RunResult()
    res.kernel = kernel
    res.stdout = TickStream(kernel)
    res.stderr = TickStream(kernel)
    old_cwd = os.getcwd()
    old_int = signal.getsignal(signal.SIGINT)
    old_term = signal.getsignal(signal.SIGTERM)
    old_env = dict(os.environ)
    old_stdin = sys.stdin
    _reset_conductor_globals()
    # The cycle collector stays off while the run is in progress: finalisers of garbage left by EARLIER runs (Popen objects,
    # output handlers caught in traceback cycles) would otherwise run at allocator-dependent moments inside this run and show
    # up as kernel calls / executed lines of it.  Objects of this run are still finalised by reference counting; what is left
    # is collected between runs (below).
    gc_was = gc.isenabled()
    gc.disable()
    try:
        os.chdir(cwd)
        if env is not None:
            os.environ.clear()
            os.environ.update(env)
        os.environ["PWD"] = str(cwd)        # as a shell leaves it after `cd` (the logical path: symbolic links are not resolved)
        if stdin_text is not None:
            sys.stdin = io.StringIO(stdin_text)
        with contextlib.ExitStack() as st:
            st.enter_context(watchdog(timeout))
            if kernel is not None:
                st.enter_context(kernel)
            st.enter_context(contextlib.redirect_stdout(res.stdout))
            st.enter_context(contextlib.redirect_stderr(res.stderr))
            try:
                try:
                    func(ns)
                    res.status = 0
                except BaseException:
                    # before any frame of the failed command is released: let the
                    # tee threads of children that were left running see EOF
                    if kernel is not None:
                        kernel.release_children()
                    raise
            except SystemExit as ex:
                code = ex.code
                res.status = 0 if code is None else (code if isinstance(code, int) else 1)
                c = ex.__context__
                if c is not None:        # the ConductorError that cli_command reported
                    res.error_class = type(c).__name__
            except fakeos.Deadlock as ex:
                res.status = "deadlock"
                res.exc = repr(ex)
            except Exception as ex:      # what the real CLI would print as a traceback
                res.status = "exc:" + type(ex).__name__
                res.exc = repr(ex)
                res.tb = traceback.format_exc(limit=-6)
            finally:
                if kernel is not None:
                    kernel.release_children()
                # drop references to Popen objects while the fake kernel is still in place
                ns = None
                _COUNT[0] += 1
                probe = os.dup(0)
                os.close(probe)
                if _COUNT[0] % 50 == 0 or probe > 400:
                    gc.collect()      # unreachable Popen/pipe objects of earlier paths hold descriptors until collected
    finally:
        if gc_was:
            gc.enable()
        signal.signal(signal.SIGINT, old_int)
        signal.signal(signal.SIGTERM, old_term)
        os.chdir(old_cwd)
        os.environ.clear()
        os.environ.update(old_env)
        sys.stdin = old_stdin
        _reset_conductor_globals()
    return res


def invoke_argv(argv, cwd, kernel=None, env=None, stdin_text=None, timeout=60):
    """Through the real argument parser: ``python -m conductor <argv...>``."""
    import conductor.__main__ as cm
    old = sys.argv

    def f(_):
        sys.argv = ["cond"] + list(argv)
        try:
            cm.main()
        finally:
            sys.argv = old
    return invoke(f, None, cwd, kernel, env, stdin_text, timeout)


def real_cli(argv, cwd, env=None, timeout=120, input_text=None):
    """The unmodified program as a user runs it (used for replays)."""
    import subprocess
    e = dict(os.environ if env is None else env)
    e.setdefault("PYTHONHASHSEED", "0")
    p = subprocess.run([sys.executable, "-m", "conductor"] + list(argv), cwd=str(cwd), env=e,
                       capture_output=True, text=True, timeout=timeout, input=input_text)
    return p.returncode, strip_ansi(p.stdout), strip_ansi(p.stderr)


# --------------------------------------------------------------------------
# trace helpers
# --------------------------------------------------------------------------

def snapshot_on_spawn(kernel, proc):
    """What the task would see when it starts."""
    env = proc.env
    snap = {"cwd": proc.cwd, "argv": list(proc.argv),
            "env": {k: v for k, v in env.items() if k.startswith("COND_")}}
    out = env.get("COND_OUT")
    if out is not None:
        snap["out_exists"] = os.path.isdir(out)
        snap["out_listing"] = sorted(os.listdir(out)) if os.path.isdir(out) else None
    deps = env.get("COND_DEPS")
    snap["deps"] = []
    if deps:
        for d in deps.split(":"):
            ent = {"path": d, "exists": os.path.isdir(d), "listing": None}
            if ent["exists"]:
                ent["listing"] = {}
                for n in sorted(os.listdir(d)):
                    fp = os.path.join(d, n)
                    ent["listing"][n] = os.path.realpath(fp) if os.path.islink(fp) else ("dir" if os.path.isdir(fp) else "file")
            snap["deps"].append(ent)
    proc.snapshot = snap
    return snap


def intervals(kernel):
    """task name -> list of (t_spawn, t_exit or None, status, pid)."""
    out = {}
    for p in kernel.tasks():
        out.setdefault(p.name, []).append((p.t_spawn, p.t_exit, p.status, p.pid))
    return out


RUNNING_RE = re.compile(r"^✱ Running (\S+)\.\.\. \((\d+)/(\d+)\)$")
SKIPPING_RE = re.compile(r"^✱ Skipping (\S+)\. \((\d+)/(\d+)\)$")
CACHED_RE = re.compile(r"^✓ Using cached results for (\S+)\.$")
DONE_RE = re.compile(r"^✓ (\S+) completed successfully\.$")
FAILED_RE = re.compile(r"^✘ (\S+) failed\.$")


def parse_run_output(res):
    """Structured view of what ``cond run`` printed."""
    info = {"running": [], "skipping": [], "cached": [], "completed": [], "failed_marks": [],
            "failed_list": [], "skipped_list": [], "done": False, "task_failed": False, "aborted": False,
            "progress": []}
    section = None
    for t, line in res.stdout.lines():
        m = RUNNING_RE.match(line)
        if m:
            info["running"].append((t, m.group(1)))
            info["progress"].append((int(m.group(2)), int(m.group(3))))
            continue
        m = SKIPPING_RE.match(line)
        if m:
            info["skipping"].append((t, m.group(1)))
            info["progress"].append((int(m.group(2)), int(m.group(3))))
            continue
        m = CACHED_RE.match(line)
        if m:
            info["cached"].append(m.group(1))
            continue
        m = DONE_RE.match(line)
        if m:
            info["completed"].append((t, m.group(1)))
            continue
        m = FAILED_RE.match(line)
        if m:
            info["failed_marks"].append((t, m.group(1)))
            continue
        if line.startswith("✨ Done!"):
            info["done"] = True
        elif line.startswith("🔴 Task failed."):
            info["task_failed"] = True
        elif line.startswith("🔸 Task aborted."):
            info["aborted"] = True
        elif line.startswith("Failed task(s):"):
            section = "failed"
        elif line.startswith("Skipped task(s)"):
            section = "skipped"
        elif section == "failed" and re.match(r"^  //\S*$", line):
            info["failed_list"].append(line.strip())
        elif section == "skipped" and re.match(r"^  //\S*$", line):
            info["skipped_list"].append(line.strip())
        elif line.strip() == "" and section == "skipped":
            section = None
    return info
