"""Self-test of the engine: planted bug must yield a reproducing model; an
exhausted tree must report exhaustive; sharding must cover the same paths."""
import sys
sys.path.insert(0, "/verif")
from vlib.symx import Engine, ConcreteEngine, Violation

def toy(g):
    a = g.fresh_int("a", 0, 9, opaque=False)
    b = g.fresh_bool("b")
    k = g.choose("k", 3)
    x = a + k
    if b:
        if x > 10:
            g.goal("deep")
            # planted bug: claim x != 11
            g.require(x != 11, "toy:eleven", "x=%s" % x)
    n = int(a)  # concretise
    return (n, bool(b), k)

def run(fixed=None, depth=None):
    g = Engine(fixed=fixed)
    seen = []; viols = []
    def on_path(g, res, v):
        if v: viols.append(v)
        else: seen.append(res)
    fr, ex = g.explore(toy, on_path, max_depth=depth)
    return g, seen, viols, fr, ex

g, seen, viols, fr, ex = run()
assert ex and not fr
assert len(set(seen)) == len(seen), "duplicate paths"
# a in 0..9, b, k in 0..2  -> 60 combos, minus violating ones (b, a+k==11 -> a=9,k=2) 
assert len(viols) >= 1 and all(v.sig == "toy:eleven" for v in viols), viols
v = viols[0]
assert v.values["a"] + v.values["k"] == 11 and v.values["b"] is True, v.values
# replay concretely
res, v2 = ConcreteEngine(v.values).run(toy)
assert v2 is not None and v2.sig == "toy:eleven"
full = set(seen)
assert len(full) == 59, len(full)
# sharded
g0, seen0, viols0, fr0, ex0 = run(depth=2)
allseen = set(seen0)
for pre in fr0:
    gi, si, vi, fri, exi = run(fixed=pre)
    assert exi and not fri
    assert not (allseen & set(si))
    allseen |= set(si)
assert allseen == full, (len(allseen), len(full))
print("symx selftest ok: paths", g.stats.paths, "forks", g.stats.forks, "queries", g.stats.feasibility_queries + g.stats.assertion_queries + g.stats.model_queries, "frontier", len(fr0))
