"""C14 - dependency graphs are validated soundly before anything runs.

Every directed graph over N task names in two COND files (self-loops, edges to
an undefined name, a dependency listed twice - literally or in a second
spelling -, listing order) and every choice of T go through the real loader,
`cond run T --check`, `cond run T` and whole-project validation; an
independent closure computation is the oracle.  All inputs are finite
structural choices: the solver prunes nothing here, the engine exhausts the
product (the property's own quantifier is "exhaustively for small n").
"""
import argparse
import pathlib

from vlib import fakeos, graphs, hrun
from vlib.hrun import TaskSpec
from vlib.runner import Space, Canary, rewrite

ID = "C14"
LEVEL = "exploration"
SOLVER_SHARE = "low"
RULE = ("one case = (edge set incl. self-loops and edges to an undefined name, duplicate-listing mode, listing order, "
        "root T); non-trivial = the graph has at least one cycle, dangling edge, duplicate or shared dependency")
TRUSTED = ["independent oracle (closure computation) in props/c14.py", "fake kernel contract (DESIGN 4)"]
ASSUMPTIONS = ["tasks are run_command (so that an unjustified execution is visible as a spawn) spread over //COND and //b/COND",
               "undefined targets are names missing from an existing COND file"]


def make(n, with_undefined=True, dupmodes=("none", "literal", "respelled"), dup_root_only=False):
    def fn(g):
        import conductor.cli.run as cli_run
        pkg = lambda j: "" if j % 2 == 0 else "b"
        names = ["t%d" % j for j in range(n)]
        adj = {}
        for j in range(n):
            tg = [i for i in range(n) if g.flag("e%d_%d" % (j, i))]       # j depends on i (any i, also j itself)
            und = with_undefined and g.flag("u%d" % j)
            adj[j] = (tg, und)
        dupmode = dupmodes[g.choose("dupmode", len(dupmodes))] if len(dupmodes) > 1 else dupmodes[0]
        root = g.choose("T", n)
        if dup_root_only:
            rev = g.flag("rev") if dupmode == "none" else False
            dupwho = root if dupmode != "none" else None
        else:
            rev = g.flag("rev")
            dupwho = g.choose("dupwho", n) if dupmode != "none" else None
        specs = []
        dup_effective = set()
        for j in range(n):
            tg, und = adj[j]
            deps = []
            for i in tg:
                deps.append((":%s" % names[i]) if pkg(i) == pkg(j) else "//%s:%s" % (pkg(i), names[i]))
            if und:
                deps.append(":undefined")
            if rev:
                deps.reverse()
            if dupwho == j and deps:
                first = deps[0]
                if dupmode == "literal":
                    deps.append(first)
                else:
                    # the same task written differently
                    tgt = first[1:] if first.startswith(":") else None
                    deps.append("//%s:%s" % (pkg(j), tgt) if tgt is not None else first.replace("//b:", "//b/:").replace("//:", "//:"))
                    if deps[-1] == first:
                        deps[-1] = first      # no second spelling exists for this one (literal duplicate)
                dup_effective.add(j)
            specs.append(TaskSpec(names[j], "run_command", deps, pkg=pkg(j)))
        # ---- oracle
        reach = set()
        st = [root]
        while st:
            x = st.pop()
            if x in reach:
                continue
            reach.add(x)
            st.extend(adj[x][0])

        def cyclic_from(nodes):
            color = {}

            def dfs(u):
                color[u] = 1
                for v in adj[u][0]:
                    if color.get(v) == 1:
                        return True
                    if v not in color and dfs(v):
                        return True
                color[u] = 2
                return False
            return any(dfs(u) for u in nodes if u not in color)
        cyc = cyclic_from([root])
        dang = any(adj[x][1] for x in reach)
        dup = any(x in dup_effective for x in reach)
        D = ["%s deps=%s" % (s.ident, s.deps) for s in specs] + ["T=%s" % specs[root].ident]
        applicable = set()
        if cyc:
            applicable.add("CyclicDependency")
        if dang:
            applicable.add("TaskNotFound")
        if dup:
            applicable.add("DuplicateDependency")
        proj = hrun.Project()
        try:
            proj.write_tasks(specs)
            for check in (True, False):
                sched = graphs.SymSched(g, all_ok=True)
                kern = fakeos.Kernel(sched, clock=fakeos.Clock())
                res = hrun.invoke(cli_run.main, hrun.run_ns(task_identifier=specs[root].ident, check=check), str(proj.root), kern)
                mode = "--check" if check else "run"
                if isinstance(res.status, str):
                    g.require(False, "graph:crash:" + res.status, "%s: %r; %s" % (mode, res.exc, D))
                spawned = sorted(p.name for p in kern.tasks())
                if applicable:
                    g.require(res.status == 1 and res.error_class in applicable, "graph:bad-graph-accepted-or-misreported",
                              "%s: status=%r error=%s, expected one of %s; %s" % (mode, res.status, res.error_class, sorted(applicable), D))
                    g.require(not spawned, "graph:task-executed-despite-graph-error", "%s: spawned %s; %s" % (mode, spawned, D))
                    g.require("ERROR:" in res.err and "Traceback" not in res.err, "graph:error-not-reported", "%s: stderr=%r" % (mode, res.err[-200:]))
                else:
                    g.require(res.status == 0, "graph:valid-graph-rejected",
                              "%s: status=%r error=%s stderr=%r; %s" % (mode, res.status, res.error_class, res.err[-200:], D))
                    if check:
                        g.require(not spawned, "graph:check-executed-a-task", "spawned %s; %s" % (spawned, D))
                    else:
                        g.require(spawned == sorted(names[x] for x in reach), "graph:wrong-tasks-executed",
                                  "spawned %s, closure %s; %s" % (spawned, sorted(names[x] for x in reach), D))
            # ---- whole-project validation (what the explorer does)
            if not dup_effective:
                from conductor.context import Context
                from conductor.errors import ConductorError

                class LsSched(fakeos.Sched):
                    def git(self, kernel, argv, cwd):
                        if argv[:2] == ["rev-parse", "--git-dir"]:
                            return ".git\n", 0
                        if argv[0] == "ls-files":
                            return "COND\nb/COND\n" if n > 1 else "COND\n", 0
                        return "", 128
                holder = {}

                def whole(_):
                    ctx = Context(proj.root)
                    results = ctx.task_index.load_all_known_tasks(ctx.git)
                    holder["load_errors"] = [r for r in results if r[2] is not None]
                    try:
                        holder["roots"] = ctx.task_index.validate_all_loaded_tasks()
                    except ConductorError as ex:
                        holder["error"] = type(ex).__name__
                    # the explorer keeps one index and validates again on the next request
                    try:
                        holder["roots2"] = ctx.task_index.validate_all_loaded_tasks()
                    except ConductorError as ex:
                        holder["error2"] = type(ex).__name__
                res = hrun.invoke(whole, None, str(proj.root), fakeos.Kernel(LsSched()))
                if isinstance(res.status, str):
                    g.require(False, "graph:crash:" + res.status, "whole-project validation: %r; %s" % (res.exc, D))
                any_cyc = cyclic_from(list(range(n)))
                any_dang = any(adj[x][1] for x in range(n))
                want_err = set()
                if any_cyc:
                    want_err.add("CyclicDependency")
                if any_dang:
                    want_err.add("TaskNotFound")
                g.require(("error" in holder) == ("error2" in holder) and
                          sorted(map(str, holder.get("roots", []))) == sorted(map(str, holder.get("roots2", []))),
                          "graph:whole-project-validation-not-repeatable",
                          "first validation: %s, second on the same index: %s; %s" % (
                              holder.get("error") or holder.get("roots"), holder.get("error2") or holder.get("roots2"), D))
                if want_err:
                    g.require(holder.get("error") in want_err, "graph:whole-project-accepts-bad-graph",
                              "validate_all_loaded_tasks: %s, expected one of %s; %s" % (holder.get("error") or holder.get("roots"), sorted(want_err), D))
                else:
                    indeg = {x: 0 for x in range(n)}
                    for x in range(n):
                        for v in adj[x][0]:
                            indeg[v] += 1
                    roots = sorted(specs[x].ident for x in range(n) if indeg[x] == 0)
                    got = sorted(str(r) for r in holder.get("roots", [])) if "roots" in holder else None
                    g.require(got == roots, "graph:whole-project-wrong-roots",
                              "roots %s (error %s), expected %s; %s" % (got, holder.get("error"), roots, D))
            if cyc:
                g.goal("cycle reachable from T")
            if not cyc and cyclic_from(list(range(n))):
                g.goal("cycle not reachable from T")
            if dang:
                g.goal("dangling dependency reachable from T")
            if dup and dupmode == "respelled":
                g.goal("same dependency in two spellings")
            if not applicable and any(sum(1 for x in reach if v in adj[x][0]) >= 2 for v in reach):
                g.goal("accepted graph with a shared dependency")
            return {"nontrivial": bool(applicable) or any(sum(1 for x in reach if v in adj[x][0]) >= 2 for v in reach),
                    "sample": {"graph": D, "cyclic": cyc, "dangling": dang, "duplicate": dup}}
        finally:
            proj.cleanup()
    return fn


def scale_fn(g):
    import conductor.cli.run as cli_run
    shape = ("dup-after-130", "no-dup-130", "chain-1500-top-down", "cycle-140")[g.choose("shape", 4)]
    proj = hrun.Project()
    try:
        if shape in ("dup-after-130", "no-dup-130"):
            lines = ["group(name='a')"] + ["group(name='m%d')" % i for i in range(130)]
            deps = [":a"] + [":m%d" % i for i in range(130)] + ([":a"] if shape == "dup-after-130" else [])
            lines.append("run_command(name='all', run='true', deps=%r)" % (deps,))
            proj.write("COND", "\n".join(lines) + "\n")
            target, want = "//:all", ("DuplicateDependency" if shape == "dup-after-130" else None)
        elif shape == "cycle-140":
            lines = ["group(name='c%d', deps=[':c%d'])" % (i, (i + 1) % 140) for i in range(140)]
            proj.write("COND", "\n".join(lines) + "\n")
            target, want = "//:c0", "CyclicDependency"
        else:
            lines = ["group(name='t%d', deps=[':t%d'])" % (i, i + 1) for i in range(1499)] + ["group(name='t1499')"]
            proj.write("COND", "\n".join(lines) + "\n")
            target, want = "//:t0", None
        D = shape
        kern = fakeos.Kernel(graphs.SymSched(g, all_ok=True), clock=fakeos.Clock())
        res = hrun.invoke(cli_run.main, hrun.run_ns(task_identifier=target, check=True), str(proj.root), kern, timeout=200)
        if isinstance(res.status, str):
            g.require(False, "graph:crash:" + res.status[4:], "--check: %s; %s" % (str(res.exc)[:160], D))
        if want:
            g.require(res.status == 1 and res.error_class == want and not kern.tasks(), "graph:bad-graph-accepted-or-misreported",
                      "status=%r error=%s, expected %s; %s" % (res.status, res.error_class, want, D))
        else:
            g.require(res.status == 0, "graph:valid-graph-rejected", "status=%r error=%s; %s" % (res.status, res.error_class, D))
        if shape in ("chain-1500-top-down", "no-dup-130"):
            # whole-project validation of the same (valid) project
            from conductor.context import Context
            from conductor.errors import ConductorError
            holder = {}

            class LsSched(fakeos.Sched):
                def git(self, kernel, argv, cwd):
                    if argv[:2] == ["rev-parse", "--git-dir"]:
                        return ".git\n", 0
                    if argv[0] == "ls-files":
                        return "COND\n", 0
                    return "", 128

            def whole(_):
                ctx = Context(proj.root)
                ctx.task_index.load_all_known_tasks(ctx.git)
                try:
                    holder["roots"] = sorted(str(r) for r in ctx.task_index.validate_all_loaded_tasks())
                except ConductorError as ex:
                    holder["error"] = type(ex).__name__
            r2 = hrun.invoke(whole, None, str(proj.root), fakeos.Kernel(LsSched()), timeout=200)
            if isinstance(r2.status, str):
                g.require(False, "graph:crash:" + r2.status[4:], "whole-project validation: %s; %s" % (str(r2.exc)[:160], D))
            g.require(holder.get("roots") == (["//:t0"] if shape.startswith("chain") else ["//:all"]), "graph:whole-project-wrong-roots",
                      "roots %s error %s; %s" % (str(holder.get("roots"))[:80], holder.get("error"), D))
        g.goal("graph of more than 128 tasks")
        return {"nontrivial": True, "sample": {"case": D, "status": res.status, "error": res.error_class}}
    finally:
        proj.cleanup()


GOALS = ["cycle reachable from T", "cycle not reachable from T", "dangling dependency reachable from T",
         "same dependency in two spellings", "accepted graph with a shared dependency"]


def spaces(tier):
    sp = [Space("scale-large-graphs", scale_fn, "a task listing 131 dependencies (with / without the first one repeated at the end), a cycle of 140 "
                "tasks, a top-down chain of 1500 tasks; run --check and whole-project validation", depth=2, goals=["graph of more than 128 tasks"]),
          Space("n3-with-undefined", make(3, dup_root_only=True),
                "N=3 names in 2 COND files, all 2^9 edge sets incl. self-loops x 2^3 edges to an undefined name x T x "
                "(listing order fwd/rev | T lists its first dependency twice, literally or in a second spelling); "
                "run --check, run, whole-project validation",
                depth=9, goals=GOALS, outside=["N>4", "missing COND files", "more than one duplicate"], tiers=("quick",))]
    if tier == "thorough":
        sp.append(Space("n3-with-undefined-any-duplicator", make(3),
                        "as the quick space, with any task as the duplicating one and both listing orders", depth=9, goals=GOALS,
                        tiers=("thorough",)))
        sp.append(Space("n4-no-undefined", make(4, with_undefined=False, dupmodes=("none",)),
                        "N=4, all 2^16 edge sets incl. self-loops, listing order, T (no undefined targets, no duplicates)", depth=12,
                        tiers=("thorough",)))
    return sp


def canaries(tier):
    return [
        Canary("on-path-marker-never-removed",
               lambda: rewrite("conductor.parsing.task_index", "TaskIndex.load_transitive_closure",
                               "curr_path.remove(identifier)", "pass"),
               preset={"e0_0": False, "e0_1": False, "e0_2": False, "e1_0": True, "e1_1": False, "e1_2": False,
                       "e2_0": True, "e2_1": True, "e2_2": False, "u0": False, "u1": False, "u2": False, "dupmode": 0, "T": 2},
               space="n3-with-undefined" if tier == "quick" else "n3-with-undefined-any-duplicator"),
        Canary("missing-task-ignored-in-whole-project-validation",
               lambda: rewrite("conductor.parsing.task_index", "TaskIndex.validate_all_loaded_tasks",
                               "raise TaskNotFound(task_identifier=str(curr_id))", "continue"),
               preset={"e0_0": False, "e0_1": False, "e0_2": False, "e1_0": False, "e1_1": False, "e1_2": False,
                       "e2_0": False, "e2_1": False, "e2_2": False, "u0": True, "dupmode": 0},
               space="n3-with-undefined" if tier == "quick" else "n3-with-undefined-any-duplicator"),
    ]
