"""C12 - restore is all-or-nothing and never overwrites.

An archive built by the real `cond archive` is restored into projects in
different prior states (empty / other recorded versions / a staging directory
left by an earlier killed restore), intact or with one corruption (index
member removed, a directory member removed, truncated stream, a version that
is already recorded, a destination directory that already exists), and the
restoring process is killed at the k-th executed line (k a solver variable over
every line of the anchored modules, measured per configuration).
"""
import os
import shutil
import subprocess
import tempfile

from vlib import crash, fakeos, hrun
from vlib.hrun import TaskSpec
from vlib.symx import Inconclusive
from conductor.config import ARCHIVE_STAGING as _STAGING
from vlib.runner import Space, Canary, rewrite

ID = "C12"
LEVEL = "fault_enumeration"
SOLVER_SHARE = "low"
RULE = ("one case = (prior project state, stale staging bit, corruption kind, kill point k or none); every executed line "
        "of cli/restore.py, execution/version_index.py (quick) or of all conductor.* (thorough) is a kill point; "
        "non-trivial = the restore does not complete")
TRUSTED = ["sqlite's atomic commit (a fresh connection after the kill sees exactly the committed rows)", "real GNU tar, tmpfs",
           "kill = the process dies (os._exit), the OS survives; power loss is outside the claim"]
ASSUMPTIONS = ["one corruption at a time", "archives of 3 versions in 2 packages", "line granularity"]

SPECS = [TaskSpec("e", "run_experiment", []), TaskSpec("f", "run_experiment", [], pkg="p")]
ARCH_ROWS = [("//:e", 5), ("//p:f", 6), ("//:e", 9)]        # (recorded in this order: the rows of one package are not adjacent)
FS_BOUND = 48
CORRUPTIONS = ("none", "index-removed", "directory-removed", "truncated", "version-already-recorded", "destination-exists", "member-header-damaged")
PRIORS = ("empty", "other-versions", "format-1-index")
_ARCH = {}
_L = {}
QUICK_ONLY = ("cli/restore.py", "execution/version_index.py")


def fill(d, tag):
    (d / "stdout.log").write_bytes(b"out " + tag.encode())
    (d / "data" / "x").mkdir(parents=True, exist_ok=True)
    (d / "data" / "x" / "r.bin").write_bytes(bytes(range(200)))


def build_archive(kind, rows=ARCH_ROWS, tag="A"):
    key = (kind, tuple(rows), tag)
    if key in _ARCH:
        return _ARCH[key]
    src = hrun.Project()
    work = tempfile.mkdtemp(prefix="verif-arch-", dir=hrun.SCRATCH_BASE)
    try:
        src.write_tasks(SPECS)
        for ident, ts in rows:
            d = src.add_version(ident, ts, files={})
            fill(d, "%s %s %d" % (tag, ident, ts))
        arch = os.path.join(work, "a.tar.gz")
        r = hrun.invoke_argv(["archive", "-o", arch], str(src.root), fakeos.Kernel(fakeos.Sched()))
        assert r.status == 0, (r.status, r.err)
        if kind in ("index-removed", "directory-removed"):
            x = os.path.join(work, "x")
            os.mkdir(x)
            subprocess.run(["tar", "xzf", arch, "-C", x], check=True)
            if kind == "index-removed":
                os.unlink(os.path.join(x, "version_index_archive.sqlite"))
            else:
                shutil.rmtree(os.path.join(x, "e.task.9"))
            os.unlink(arch)
            subprocess.run(["tar", "czf", arch, "-C", x] + sorted(os.listdir(x)), check=True)
        if kind == "member-header-damaged":
            # the gzip layer stays intact; one byte of the checksum field of a later member's header is flipped
            import gzip
            raw = bytearray(gzip.decompress(open(arch, "rb").read()))
            off = 0
            headers = []
            while off + 512 <= len(raw) and raw[off:off + 512] != b"\0" * 512:
                size = int(raw[off + 124:off + 136].rstrip(b"\0 ").decode() or "0", 8)
                headers.append(off)
                off += 512 + ((size + 511) // 512) * 512
            victim = headers[-2] if len(headers) >= 2 else headers[-1]
            raw[victim + 148] = ord("7") if raw[victim + 148] != ord("7") else ord("1")
            open(arch, "wb").write(gzip.compress(bytes(raw)))
        data = open(arch, "rb").read()
        if kind == "truncated":
            data = data[: int(len(data) * 0.6)]
        _ARCH[key] = data
        return data
    finally:
        src.cleanup()
        shutil.rmtree(work, ignore_errors=True)


def setup(prior, stale, corruption):
    proj = hrun.Project()
    proj.write_tasks(SPECS)
    proj.out.mkdir(exist_ok=True)
    if prior == "other-versions":
        # (one of the recorded versions belongs to a task whose package is called like restore's staging directory)
        for ident, ts in (("//:e", 3), ("//p:f", 20)) + ((("//archive-tmp:g", 30),) if not stale else ()):
            fill(proj.add_version(ident, ts, files={}), "prior %s %d" % (ident, ts))
    elif prior == "format-1-index":
        # the project was last used with Conductor <= 0.4.0: its index is still in format 1 and is upgraded by this command
        import sqlite3
        conn = sqlite3.connect(str(proj.out / "version_index.sqlite"))
        conn.execute("CREATE TABLE version_index (task_identifier TEXT NOT NULL, timestamp INTEGER NOT NULL, git_commit TEXT NOT NULL, "
                     "PRIMARY KEY (task_identifier, timestamp))")
        conn.execute("PRAGMA user_version = 1")
        for ident, ts in (("//:e", 3), ("//p:f", 20)):
            conn.execute("INSERT INTO version_index VALUES (?, ?, ?)", (ident, ts, "unknown"))
            pkg_, nm_ = ident[2:].rsplit(":", 1)
            d_ = proj.out / pkg_ / ("%s.task.%d" % (nm_, ts))
            d_.mkdir(parents=True)
            fill(d_, "prior %s %d" % (ident, ts))
        conn.commit()
        conn.close()
    else:
        from conductor.execution.version_index import VersionIndex
        VersionIndex.create_or_load(proj.out / "version_index.sqlite")
    if corruption == "version-already-recorded":
        fill(proj.add_version("//:e", 9, files={}), "prior //:e 9 (same id as in the archive)")
    if corruption == "destination-exists":
        d = proj.out / "e.task.5"
        d.mkdir()
        (d / "leftover.txt").write_text("unrecorded leftover")
    if stale:
        # what a restore of ANOTHER archive leaves behind when it is killed after extraction
        st = proj.out / _STAGING
        st.mkdir()
        # (for an incoming archive that lacks a listed directory: the intact copy of that same archive, so that the staging
        # directory left behind holds exactly the member the incoming archive is missing)
        other = build_archive("none") if corruption == "directory-removed" else build_archive("none", rows=[("//:e", 77)], tag="STALE")
        p = subprocess.run(["tar", "xzf", "-", "-C", str(st)], input=other)
        assert p.returncode == 0
    arch = os.path.join(str(proj.root), "incoming.tar.gz")
    kind = corruption if corruption in ("index-removed", "directory-removed", "truncated", "member-header-damaged") else "none"
    with open(arch, "wb") as fh:
        fh.write(build_archive(kind))
    return proj, arch


def make(only):
    def fn(g):
        prior = PRIORS[g.choose("prior", len(PRIORS))]
        stale = g.flag("stale_staging")
        corruption = CORRUPTIONS[g.choose("corruption", len(CORRUPTIONS))]
        kill = g.flag("kill") if prior != "format-1-index" else False       # (a kill during the upgrade of the index itself is not modelled)
        # cond's own stdout/stderr may be unable to encode non-ASCII characters (PYTHONIOENCODING=ascii, legacy locales)
        ascii_io = g.flag("stdout_cannot_encode_non_ascii") if (corruption == "none" and not kill) else False
        # at most one file-system call made on behalf of Conductor under cond-out fails with EACCES (vlib.faults), its position a
        # decision variable - only for an intact archive restored without a kill, where the restore would otherwise complete
        fk = g.choose("fs_fault_at", FS_BOUND + 1) if (corruption == "none" and not kill and not stale and not ascii_io and prior == "other-versions") else 0
        D = "prior=%s stale_staging=%s corruption=%s%s" % (prior, stale, corruption, " ascii-only stdout" if ascii_io else "")
        k = None
        if kill:
            cfg = (prior, stale, corruption, only)
            if cfg not in _L:
                p0, a0 = setup(prior, stale, corruption)
                try:
                    r0 = crash.run_in_child(lambda: hrun.invoke_argv(["restore", a0], str(p0.root), fakeos.Kernel(fakeos.Sched())).status, None, only)
                finally:
                    p0.cleanup()
                _L[cfg] = r0.get("lines", 0)
            L = _L[cfg]
            kb = g.choose("kb", (max(L, 1) + 31) // 32 + 1)        # one block beyond the measured count, see below
            g.shard_point()
            k = kb * 32 + g.choose("ko", 32)
        else:
            g.shard_point()
        proj, arch = setup(prior, stale, corruption)
        try:
            rows_before = proj.index_rows()
            dirs_before = {}
            for ident, ts, _, _ in rows_before:
                pkg, nm = ident[2:].rsplit(":", 1)
                rel = os.path.join(pkg, "%s.task.%d" % (nm, ts))
                dirs_before[rel] = hrun.tree_digest(proj.out / rel)
            leftover_before = hrun.tree_digest(proj.out / "e.task.5") if corruption == "destination-exists" else None
            if k is None:
                hrun.ASCII_ONLY_STDIO = ascii_io
                from vlib import faults
                flt = faults.OneFault(fk, proj.out)
                try:
                    with flt:
                        res = hrun.invoke_argv(["restore", arch], str(proj.root), fakeos.Kernel(fakeos.Sched()))
                finally:
                    hrun.ASCII_ONLY_STDIO = False
                if flt.fired:
                    D += " injected fault: %s" % flt.fired
                    g.goal("file-system fault during restore")
                status = res.status
                where = None
            else:
                out = crash.run_in_child(lambda: hrun.invoke_argv(["restore", arch], str(proj.root), fakeos.Kernel(fakeos.Sched())).status, k, only)
                if "child_error" in out:
                    g.require(False, "restore:harness-child-error", "%s; %s" % (out["child_error"], D))
                status = "killed" if out["killed"] else out.get("result")
                where = out.get("killed_at")
                if out["killed"] and k >= L + 16:
                    raise Inconclusive("line numbering is not stable: the run without a fault had %d line events, an identical run reached %d (%s)" % (L, k, where))
                D += " killed at line event %d (%s)" % (k, where)
            rows_after = proj.index_rows()
            expect_ok = (corruption == "none")
            completed = (status == 0)
            site = (where or "").split(":")[1] if where else "-"
            for rel, dig in dirs_before.items():
                g.require(hrun.tree_digest(proj.out / rel) == dig, "restore:existing-version-modified",
                          "%s changed; %s" % (rel, D))
            if leftover_before is not None:
                g.require(hrun.tree_digest(proj.out / "e.task.5") == leftover_before or completed, "restore:existing-directory-overwritten",
                          "pre-existing e.task.5 was modified by a restore that did not complete; %s" % D)
            want = sorted(set((r[0], r[1]) for r in rows_before) | set(ARCH_ROWS))
            got = sorted((r[0], r[1]) for r in rows_after)
            all_there = (got == want)
            if completed:
                g.require(expect_ok, "restore:reported-success-for-" + corruption + ("+stale-staging" if stale else ""),
                          "restore exited 0 although the archive/project was %s; rows now %s; %s" % (corruption, got, D))
                g.require(all_there, "restore:success-but-wrong-rows" + ("+stale-staging" if stale else ""),
                          "rows %s, expected %s; %s" % (got, want, D))
                g.goal("restore completes")
            else:
                # all or nothing: either nothing was recorded, or (killed after the commit) everything was
                g.require(rows_after == rows_before or (status == "killed" and expect_ok and all_there),
                          "restore:partial-restore-recorded" + (":killed@" + site if status == "killed" else ":" + corruption),
                          "recorded versions changed although the restore did not complete (status %r): before %s after %s; %s" % (
                              status, [(r[0], r[1]) for r in rows_before], got, D))
                if status == "killed":
                    g.goal("restore killed midway")
                else:
                    g.goal("restore fails")
            if all_there and rows_after != rows_before:
                ref = hrun.Project()
                try:
                    for ident, ts in ARCH_ROWS:
                        pkg, nm = ident[2:].rsplit(":", 1)
                        rel = os.path.join(pkg, "%s.task.%d" % (nm, ts))
                        d = ref.root / "ref" / rel
                        d.mkdir(parents=True)
                        fill(d, "A %s %d" % (ident, ts))
                        g.require(hrun.tree_digest(proj.out / rel) == hrun.tree_digest(d), "restore:recorded-but-directory-wrong",
                                  "%s is missing or differs from the archived tree; %s" % (rel, D))
                finally:
                    ref.cleanup()
            # every recorded version has its directory (C06's invariant, cheap to check here)
            for ident, ts, _, _ in rows_after:
                pkg, nm = ident[2:].rsplit(":", 1)
                g.require((proj.out / pkg / ("%s.task.%d" % (nm, ts))).is_dir(), "restore:row-without-directory", "%s %d; %s" % (ident, ts, D))
            return {"nontrivial": not completed, "sample": {"case": D, "status": status, "rows_after": [(r[0], r[1]) for r in rows_after]}}
        finally:
            proj.cleanup()
    return fn


def scale_fn(g):
    """An archive of 10 versions (5 tasks x 2) - more than any worker or batch count."""
    corruption = ("none", "ninth-directory-removed", "tenth-version-already-recorded", "first-directory-removed", "killed-while-copying")[g.choose("corruption", 5)]
    nver = 4 if corruption == "killed-while-copying" else 2           # 20 versions for the kill scenario
    specs = [TaskSpec("e%d" % i, "run_experiment", [], pkg=("", "p", "p/q")[i % 3]) for i in range(5)]
    rows = [(s_.ident, 100 * (v + 1) + i) for v in range(nver) for i, s_ in enumerate(specs)]
    src = hrun.Project()
    proj = hrun.Project()
    work = tempfile.mkdtemp(prefix="verif-arch-", dir=hrun.SCRATCH_BASE)
    try:
        for P in (src, proj):
            P.write_tasks(specs)
        for ident, ts in rows:
            fill(src.add_version(ident, ts, files={}), "S %s %d" % (ident, ts))
        arch = os.path.join(work, "a.tar.gz")
        r = hrun.invoke_argv(["archive", "-o", arch], str(src.root), fakeos.Kernel(fakeos.Sched()))
        assert r.status == 0, (r.status, r.err)
        if corruption in ("ninth-directory-removed", "first-directory-removed"):
            x = os.path.join(work, "x")
            os.mkdir(x)
            subprocess.run(["tar", "xzf", arch, "-C", x], check=True)
            ident, ts = rows[8] if corruption.startswith("ninth") else rows[0]
            pkg, nm = ident[2:].rsplit(":", 1)
            shutil.rmtree(os.path.join(x, pkg, "%s.task.%d" % (nm, ts)))
            os.unlink(arch)
            subprocess.run(["tar", "czf", arch, "-C", x] + sorted(os.listdir(x)), check=True)
        fill(proj.add_version("//:e0", 7, files={}), "prior")
        if corruption == "tenth-version-already-recorded":
            fill(proj.add_version(rows[9][0], rows[9][1], files={}), "prior same id")
        before = proj.index_rows()
        before_dig = hrun.tree_digest(proj.out, exclude=("version_index.sqlite",))
        killed = False
        if corruption == "killed-while-copying":
            # the restoring process dies at one of a few points spread over the copy phase (every 40th executed line of cli/restore.py)
            cfg = ("scale-kill",)
            if cfg not in _L:
                p0 = hrun.Project()
                try:
                    p0.write_tasks(specs)
                    r0 = crash.run_in_child(lambda: hrun.invoke_argv(["restore", arch], str(p0.root), fakeos.Kernel(fakeos.Sched())).status, None, ("cli/restore.py",))
                finally:
                    p0.cleanup()
                _L[cfg] = r0.get("lines", 0)
            k = 40 * (1 + g.choose("kill_block", max(1, _L[cfg] // 40 - 1)))
            outk = crash.run_in_child(lambda: hrun.invoke_argv(["restore", arch], str(proj.root), fakeos.Kernel(fakeos.Sched())).status, k, ("cli/restore.py",))
            killed = bool(outk.get("killed"))

            class R:
                status = "killed" if killed else outk.get("result")
                err = ""
                exc = None
            res = R()
        else:
            res = hrun.invoke_argv(["restore", arch], str(proj.root), fakeos.Kernel(fakeos.Sched()), timeout=120)
        D = "archive of %d versions, corruption=%s" % (len(rows), corruption)
        if isinstance(res.status, str) and corruption == "none":
            g.require(False, "restore:crash:" + res.status[4:], "%s; %s" % (res.exc, D))
        after = proj.index_rows()
        if corruption == "killed-while-copying":
            # all or nothing, and whatever is recorded has its directory
            allrows = sorted(set((r_[0], r_[1]) for r_ in before) | set(rows))
            got_ = sorted((r_[0], r_[1]) for r_ in after)
            g.require(after == before or got_ == allrows, "restore:partial-restore-recorded:killed@main",
                      "killed restore left %d rows (before %d, archive %d); %s" % (len(after), len(before), len(rows), D))
            for ident, ts, _, _ in after:
                pkg, nm = ident[2:].rsplit(":", 1)
                g.require((proj.out / pkg / ("%s.task.%d" % (nm, ts))).is_dir(), "restore:row-without-directory", "%s %d; %s" % (ident, ts, D))
            g.goal("archive of ten versions")
            return {"nontrivial": True, "sample": {"case": D, "rows_after": len(after)}}
        if corruption == "none":
            g.require(res.status == 0, "restore:failed", "status=%r err=%r; %s" % (res.status, res.err[-200:], D))
            g.require(sorted((r_[0], r_[1]) for r_ in after) == sorted(set((r_[0], r_[1]) for r_ in before) | set(rows)), "restore:success-but-wrong-rows",
                      "%d rows after the restore; %s" % (len(after), D))
            for ident, ts in rows:
                pkg, nm = ident[2:].rsplit(":", 1)
                rel = os.path.join(pkg, "%s.task.%d" % (nm, ts))
                g.require(hrun.tree_digest(proj.out / rel) == hrun.tree_digest(src.out / rel) and (proj.out / rel).is_dir(), "restore:recorded-but-directory-wrong",
                          "%s missing or different; %s" % (rel, D))
        else:
            g.require(res.status != 0, "restore:reported-success-for-" + corruption, "restore exited 0; %s" % D)
            g.require(after == before, "restore:partial-restore-recorded:" + corruption, "rows changed: %d -> %d; %s" % (len(before), len(after), D))
            now = hrun.tree_digest(proj.out, exclude=("version_index.sqlite",))
            changed = sorted(k for k in before_dig if now.get(k) != before_dig[k])
            g.require(not changed, "restore:existing-version-modified", "%s; %s" % (changed[:4], D))
        g.goal("archive of ten versions")
        return {"nontrivial": corruption != "none", "sample": {"case": D, "status": res.status}}
    finally:
        src.cleanup()
        proj.cleanup()
        shutil.rmtree(work, ignore_errors=True)


_WARM = [False]


def _warm():
    if _WARM[0]:
        return
    _WARM[0] = True
    old = hrun.SCRATCH_BASE
    d = tempfile.mkdtemp(prefix="verif-warm-", dir=old if os.path.isdir(old) else None)
    hrun.SCRATCH_BASE = d
    try:
        p, a = setup("other-versions", False, "none")
        hrun.invoke_argv(["restore", a], str(p.root), fakeos.Kernel(fakeos.Sched()))
        p.cleanup()
        _ARCH.clear()
    finally:
        hrun.SCRATCH_BASE = old
        shutil.rmtree(d, ignore_errors=True)


def spaces(tier):
    _warm()
    goals = ["restore completes", "restore killed midway", "restore fails", "file-system fault during restore"]
    sp = [Space("restore-faults", make(QUICK_ONLY),
                "prior state {empty, other versions} x stale staging bit x 7 corruption kinds x (no kill | kill at every executed "
                "line of cli/restore.py and execution/version_index.py); for an intact archive onto a project with other versions additionally at most one "
                "file-system call under cond-out (mkdir, copyfile, listdir, ...; k <= %d a decision variable) failing with EACCES" % FS_BOUND + ")", depth="marker", goals=goals, tiers=("quick",),
                outside=["power loss / fsync", "two corruptions at once", "concurrent invocations"])]
    sp.append(Space("scale-ten-versions", scale_fn, "an archive of 10 versions of 5 tasks in 3 packages: intact, first / ninth directory missing, tenth version "
                    "already recorded; an archive of 20 versions whose restore is killed at points spread over the copy phase", depth=2, goals=["archive of ten versions"]))
    if tier == "thorough":
        sp.append(Space("restore-faults-all-lines", make(None),
                        "same, kill at every executed line of conductor.*", depth="marker", goals=goals, tiers=("thorough",)))
    return sp


def canaries(tier):
    sp = "restore-faults" if tier == "quick" else "restore-faults-all-lines"
    return [
        Canary("restore-commits-before-copying",
               lambda: rewrite("conductor.cli.restore", "main", "        # Copy over all archived task outputs\n",
                               "        ctx.version_index.commit_changes()\n"),
               space=sp, preset={"prior": 0, "stale_staging": False, "corruption": 2, "kill": False}),
        Canary("restore-omits-rollback",
               lambda: rewrite("conductor.cli.restore", "main", "ctx.version_index.rollback_changes()", "ctx.version_index.commit_changes()"),
               space=sp, preset={"prior": 0, "stale_staging": False, "corruption": 2, "kill": False}),
    ]
