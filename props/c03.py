"""C03 - failures skip dependents, spare independents, and decide the exit status.

Every child's exit status is one symbolic integer (or a symbolic signal
number), launches may fail, --stop-early is a bit; the real executor's
decisions on them are explored exhaustively and compared with the oracle
computed from the graph.
"""
import signal as _signal

from vlib import graphs, hrun
from vlib.runner import Space, Canary, rewrite, setattr_patch

ID = "C03"
LEVEL = "model_checking"
SOLVER_SHARE = "medium"
RULE = ("one case = one feasible path (graph, kinds, par bits, jobs, completion order, per child: exits with symbolic "
        "rc / dies from symbolic signal / launch fails, stop-early bit); non-trivial = at least one failing task with a "
        "dependent or an independent sibling")
TRUSTED = ["z3", "fake kernel contract (DESIGN 4)", "CPython subprocess (executed)"]
ASSUMPTIONS = ["eager SIGCHLD delivery", "a launch failure is _fork_exec raising OSError(EAGAIN)", "git disabled, no cache"]


def dependents_closure(specs, seeds):
    out = set()
    changed = True
    while changed:
        changed = False
        for j, s in enumerate(specs):
            if j in out or j in seeds:
                continue
            if any(d in seeds or d in out for d in s.dep_idx):
                out.add(j)
                changed = True
    return out


def make(n, kinds, jobs_hi, orders="rev", launch=True, signals=True, stop_early_bit=True, batch=False, max_fail=None):
    def fn(g):
        specs = graphs.sym_graph(g, n, kinds, orders=orders)
        root = n - 1
        stop_early = g.flag("stop_early") if stop_early_bit else False
        jobs = g.fresh_int("jobs", 1, jobs_hi, opaque=False)
        sched = graphs.SymSched(g, signals=signals, launch_failures=launch, on_spawn=graphs.output_writer, batch=batch, max_fail=max_fail)
        res = graphs.run_graph(g, specs, root, again=True, jobs=jobs, stop_early=stop_early, sched=sched, adversarial=batch)
        try:
            graphs.crash_check(g, res, specs)
            D = graphs.describe(specs) + ["stop_early=%s jobs=%s" % (stop_early, jobs)]
            k = res.kernel
            need = graphs.reachable(specs, root)
            sp = graphs.spawned_by_task(res, specs)
            idx = {s.name: j for j, s in enumerate(specs)}
            # which children failed: decided by forking on the status if Conductor itself never looked at it
            failed = set(idx[nm] for nm in sched.launch_failed)
            for j, ps in sp.items():
                for p in ps:
                    if p.state == "run":
                        continue
                    if not bool(sched.ok(p.pid)):
                        failed.add(j)
            info = hrun.parse_run_output(res)
            ii = graphs.ident_index(specs)
            failed_list = [ii[x] for x in info["failed_list"]]
            skipped_list = [ii[x] for x in info["skipped_list"]]
            if not stop_early:
                for j, ps in sp.items():
                    for p in ps:
                        g.require(p.state != "run", "fail:child-left-running", "%s still running at the end; %s" % (p, D))
                skipped = dependents_closure(specs, failed) & need
                for j in need:
                    s = specs[j]
                    if s.kind not in hrun.SUBPROCESS_KINDS:
                        continue
                    tries = len(sp.get(j, [])) + (1 if s.name in sched.launch_failed else 0)
                    if j in skipped:
                        g.require(tries == 0, "fail:dependent-of-failed-task-started",
                                  "%s depends on a failed task but was started; failed=%s %s" % (s.ident, sorted(failed), D))
                    else:
                        g.require(tries == 1, "fail:independent-task-not-run-once",
                                  "%s does not depend on a failed task, expected exactly one start, got %d; failed=%s %s" % (
                                      s.ident, tries, sorted(failed), D))
                g.require((res.status == 0) == (not failed), "fail:exit-status",
                          "exit status %r with failed=%s; %s" % (res.status, sorted(failed), D))
                if failed:
                    g.require(res.status == 1 and "ERROR:" in res.err and "Traceback" not in res.err, "fail:exit-report",
                              "status=%r stderr=%r" % (res.status, res.err[-300:]))
                    g.require(sorted(failed_list) == sorted(failed), "fail:failed-list",
                              "Failed task(s) printed %s, expected %s; %s" % (info["failed_list"], sorted(specs[j].ident for j in failed), D))
                    g.require(sorted(skipped_list) == sorted(skipped), "fail:skipped-list",
                              "Skipped task(s) printed %s, expected %s; %s" % (info["skipped_list"], sorted(specs[j].ident for j in skipped), D))
                else:
                    g.require(info["done"] and not info["failed_list"] and not info["skipped_list"], "fail:spurious-report",
                              "no failure but output %r" % res.out[-300:])
                if failed and skipped:
                    g.goal("failed task with a skipped dependent")
                if failed and (need - failed - skipped):
                    g.goal("failed task with a spared independent task")
                if len(failed) >= 2:
                    g.goal("two failed tasks")
            else:
                # first observed failure: the moment Conductor reports a task as failed
                # (a failed child that was reaped but not yet looked at has not been observed)
                t_fail = info["failed_marks"][0][0] if info["failed_marks"] else None
                if t_fail is None and failed:
                    g.require(False, "fail:failure-never-reported", "failed=%s but no task was reported as failed; %s" % (sorted(failed), D))
                g.require((res.status == 0) == (t_fail is None), "fail:exit-status",
                          "stop-early exit status %r, first failure at %s; %s" % (res.status, t_fail, D))
                if t_fail is not None:
                    late = [e[:4] for e in k.events if e[0] == "spawn" and e[1] > t_fail]
                    g.require(not late, "stopearly:task-started-after-failure",
                              "spawn %s after the first failure was observed at t=%s; %s" % (late, t_fail, D))
                    for p in k.tasks():
                        if p.t_spawn <= t_fail and (p.t_exit is None or p.t_exit > t_fail):
                            g.require(any(sig == int(_signal.SIGTERM) for _, sig in p.killed), "stopearly:running-task-not-terminated",
                                      "%s still running after stop-early and never sent SIGTERM; %s" % (p, D))
                            g.goal("stop-early with a task still running")
                    g.require(res.status == 1 and "ERROR:" in res.err and "Traceback" not in res.err, "fail:exit-report",
                              "status=%r stderr=%r" % (res.status, res.err[-300:]))
                    g.require(len(failed_list) >= 1 and set(failed_list) <= failed, "fail:failed-list",
                              "Failed task(s) printed %s, failed %s; %s" % (info["failed_list"], sorted(failed), D))
            if batch and getattr(sched, "nb", 0) and any(
                    k.events[i][0] == "exit" and k.events[i + 1][0] == "exit" for i in range(len(k.events) - 1)):
                g.goal("two exits delivered by one SIGCHLD")
            return {"nontrivial": bool(failed) and len(need) > 1,
                    "sample": {"tasks": D, "failed": sorted(specs[j].ident for j in failed), "status": res.status,
                               "failed_list": info["failed_list"], "skipped_list": info["skipped_list"],
                               "outcomes": {str(p): repr(v) for p, v in sched.outcome.items()}}}
        finally:
            res.proj.cleanup()
    return fn


def scale_fn(g):
    """Deep chain of skipped dependents; hundreds of failing tasks."""
    from vlib import scale, fakeos
    import conductor.cli.run as cli_run
    shape = ("deep-chain-600", "fan-260-failing-255", "fan-260-failing-256")[g.choose("shape", 3)]
    if shape.startswith("deep"):
        specs = scale.chain(600) + [hrun.TaskSpec("ok", "run_command", []), hrun.TaskSpec("all", "group", [":t599", ":ok"])]
        failing = {"t0"}
        jobs = None
    else:
        specs = scale.fan(260)
        failing = set("l%d" % i for i in range(int(shape.rsplit("-", 1)[1])))
        jobs = 8
    proj = hrun.Project()
    try:
        proj.write_tasks(specs)

        class S(fakeos.Sched):
            def status_for(self, kernel, proc):
                return fakeos.StatusExited(3 if proc.name in failing else 0)
        kern = fakeos.Kernel(S(), clock=fakeos.Clock())
        res = hrun.invoke(cli_run.main, hrun.run_ns(task_identifier=specs[-1].ident, jobs=jobs), str(proj.root), kern, timeout=200)
        D = shape
        if isinstance(res.status, str):
            g.require(False, "fail:crash:" + res.status[4:], "%s; %s" % (str(res.exc)[:200], D))
        info = hrun.parse_run_output(res)
        g.require(res.status == 1 and "ERROR:" in res.err, "fail:exit-status", "exit status %r with %d failing tasks; %s" % (res.status, len(failing), D))
        g.require(sorted(info["failed_list"]) == sorted("//:" + n for n in failing), "fail:failed-list",
                  "%d failed tasks listed, expected %d; %s" % (len(info["failed_list"]), len(failing), D))
        spawned = [p.name for p in kern.tasks()]
        if shape.startswith("deep"):
            g.require(sorted(info["skipped_list"]) == sorted(["//:t%d" % i for i in range(1, 600)] + ["//:all"]), "fail:skipped-list",
                      "%d skipped tasks listed, expected 600; %s" % (len(info["skipped_list"]), D))
            g.require(sorted(spawned) == ["ok", "t0"], "fail:independent-task-not-run-once", "spawned %s; %s" % (spawned[:6], D))
        else:
            g.require(len(spawned) == 260 and len(set(spawned)) == 260, "fail:independent-task-not-run-once", "%d spawns; %s" % (len(spawned), D))
        g.goal("hundreds of tasks in one run")
        return {"nontrivial": True, "sample": {"case": D, "status": res.status, "failed": len(info["failed_list"]), "skipped": len(info["skipped_list"])}}
    finally:
        proj.cleanup()


def spaces(tier):
    goals = ["failed task with a skipped dependent", "failed task with a spared independent task", "two failed tasks",
             "stop-early with a task still running"]
    sp = [Space("n3-allkinds-j2-rc", make(3, graphs.ALL_KINDS, 2, launch=False, signals=False),
                "N<=3, every edge set, deps forward/reversed, 4 kinds, par bits, jobs 1..2, every completion order; per "
                "child one symbolic exit status 0..255; {default, --stop-early}",
                depth=8, goals=goals, outside=["N>3", "jobs>2", "failing combine step (C18)"]),
          Space("n2-signals-launch", make(2, graphs.ALL_KINDS, 2),
                "N<=2, 4 kinds, par bits, jobs 1..2; per child: symbolic exit status | symbolic signal 1..64 | launch "
                "failure (OSError from fork/exec); {default, --stop-early}", depth=6)]
    sp.append(Space("n3-batched-exits-j2", make(3, ("run_command", "group"), 2, launch=False, signals=False, batch=True),
                    "N<=3, kinds {run_command, group}, jobs 1..2, one SIGCHLD may stand for two exits (second child exits "
                    "before the handler runs; the handler hands completions out last-in first-out), {default, --stop-early}",
                    depth=8, goals=["two exits delivered by one SIGCHLD"]))
    sp.append(Space("n4-fanin-batched-stop-early", make(4, ("run_command", "group"), 2, launch=False, signals=False, batch=True),
                    "4 tasks: a group root depending on 3 run_command tasks, every edge set among the three, par bits, --jobs 2, "
                    "--stop-early, batched exits", depth=9,
                    preset={"e0_3": True, "e1_3": True, "e2_3": True, "k0": 0, "k1": 0, "k2": 0, "k3": 1, "rev3": False,
                            "stop_early": True, "jobs": 2}))
    sp.append(Space("scale-deep-and-wide", scale_fn, "a chain of 600 tasks whose first task fails (599 skipped dependents + an independent task); "
                    "a group over 260 parallelizable tasks of which 255 / 256 fail, --jobs 8", depth=2, goals=["hundreds of tasks in one run"]))
    sp.append(Space("n5-fanin-one-launch-failure", make(5, ("run_command", "group"), 2, launch=True, signals=False, max_fail=1),
                    "5 tasks: a group root over 4 parallelizable run_command tasks, every edge set among the four, --jobs 2, at most one "
                    "failure (failed launch or non-zero exit)", depth=10,
                    preset={"e0_4": True, "e1_4": True, "e2_4": True, "e3_4": True, "k0": 0, "k1": 0, "k2": 0, "k3": 0, "k4": 1,
                            "rev4": False, "stop_early": False, "jobs": 2, "p0": True, "p1": True, "p2": True, "p3": True}))
    sp.append(Space("n4-fanin-batched-stop-early-j3", make(4, ("run_command", "group"), 3, launch=False, signals=False, batch=True),
                    "the same fan-in family with --jobs 3 (three tasks in flight, two exits in one delivery, one still running)", depth=9,
                    preset={"e0_3": True, "e1_3": True, "e2_3": True, "k0": 0, "k1": 0, "k2": 0, "k3": 1, "rev3": False,
                            "stop_early": True, "jobs": 3}))
    if tier == "thorough":
        sp.append(Space("n3-allkinds-j2-all-failure-modes", make(3, graphs.ALL_KINDS, 2),
                        "N<=3 as above with all three failure modes per child", depth=8, tiers=("thorough",)))
        sp.append(Space("n4-exp-group-combine-j2", make(4, ("run_experiment", "group", "combine"), 2, signals=False),
                        "N=4, kinds {run_experiment, group, combine}, jobs 1..2, rc symbolic, launch failures, stop-early bit",
                        depth=10, tiers=("thorough",)))
        sp.append(Space("n3-allperm-j3", make(3, graphs.ALL_KINDS, 3, orders="all"),
                        "N=3, all kinds, all dep permutations, jobs 1..3", depth=8, tiers=("thorough",)))
    return sp


def canaries(tier):
    def widen(raw):
        from conductor.execution.operation_state import OperationState

        def succeeded(self):
            return raw(self) or self.state == OperationState.SKIPPED
        return succeeded
    return [
        Canary("succeeded-accepts-skipped",
               lambda: setattr_patch("conductor.execution.ops.operation", "Operation.succeeded", widen),
               preset={"e0_1": True, "e1_2": True, "e0_2": False, "k0": 0, "k1": 0, "k2": 0, "stop_early": False}),
        Canary("wtermsig-decoded-as-zero",
               lambda: rewrite("conductor.utils.sigchld", "SigchldHelper._handler",
                               "returncode = os.WTERMSIG(status)", "returncode = 0"), space="n2-signals-launch"),
        Canary("stop-early-does-not-terminate",
               lambda: rewrite("conductor.execution.executor", "_InflightOperations.terminate_processes",
                               "os.killpg(group_id, signal.SIGTERM)", "pass"),
               preset={"e0_1": False, "e1_2": True, "e0_2": True, "k0": 1, "k1": 1, "k2": 1, "p0": True, "p1": True,
                       "stop_early": True, "jobs": 2}),
    ]
