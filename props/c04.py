"""C04 - parallelism limits: --jobs bound, exclusive sequential tasks, distinct slots.

The real executor's slot gate and slot stack run over the fake kernel; the graph,
par bits, kinds, --jobs (a symbolic integer), the completion order, the exit
statuses and one configuration bit (COND_SLOT already present in cond's own
environment, i.e. a nested `cond run`) are solver variables.
"""
from vlib import graphs, hrun
from vlib.runner import Space, Canary, rewrite

ID = "C04"
LEVEL = "model_checking"
SOLVER_SHARE = "medium"
RULE = ("one case = one feasible path (graph, kinds, par bits, jobs, completion order, sign of statuses, ambient "
        "COND_SLOT bit); non-trivial = at least two task processes spawned")
TRUSTED = ["z3", "fake kernel contract (DESIGN 4)", "CPython subprocess (executed)"]
ASSUMPTIONS = ["eager SIGCHLD delivery", "git disabled, --again (no cache)"]


def make(n, kinds, jobs_hi, orders="rev", ambient_bit=True, launch=True, all_ok=False, jobs_lo=1):
    def fn(g):
        specs = graphs.sym_graph(g, n, kinds, orders=orders)
        root = n - 1
        jobs = g.fresh_int("jobs", jobs_lo, jobs_hi, opaque=False)
        ambient = g.flag("ambient_slot") if ambient_bit else False
        import os
        env = dict(os.environ)
        env.pop("COND_SLOT", None)
        if ambient:
            env["COND_SLOT"] = "7"
        sched = graphs.SymSched(g, on_spawn=graphs.output_writer, launch_failures=launch, max_fail=1 if launch else None,
                                all_ok=all_ok)
        res = graphs.run_graph(g, specs, root, again=True, jobs=jobs, sched=sched, env=env)
        try:
            graphs.crash_check(g, res, specs)
            J = int(jobs)
            D = graphs.describe(specs) + ["jobs=%d ambient_COND_SLOT=%s" % (J, ambient)]
            k = res.kernel
            idx = {s.name: j for j, s in enumerate(specs)}
            procs = k.tasks()
            maxc = 0
            for q in procs:
                live = [p for p in procs if p.t_spawn <= q.t_spawn and (p.t_exit is None or p.t_exit > q.t_spawn)]
                maxc = max(maxc, len(live))
                g.require(len(live) <= J, "par:more-than-jobs-running",
                          "%d task processes running at t=%d with --jobs %d; %s" % (len(live), q.t_spawn, J, D))
                if len(live) > 1:
                    for p in live:
                        g.require(specs[idx[p.name]].par, "par:sequential-task-ran-concurrently",
                                  "%s is not parallelizable but ran together with %s; %s" % (p.name, [x.name for x in live], D))
                    slots = [p.env.get("COND_SLOT") for p in live]
                    g.require(len(set(slots)) == len(slots), "par:duplicate-slot",
                              "concurrent tasks %s carry slots %s; %s" % ([x.name for x in live], slots, D))
            for p in procs:
                s = specs[idx[p.name]]
                slot = p.env.get("COND_SLOT")
                expect_set = s.par and J > 1
                if expect_set:
                    g.require(slot is not None and slot.isdigit() and 0 <= int(slot) < J, "par:slot-missing-or-out-of-range",
                              "%s parallelizable with --jobs %d has COND_SLOT=%r; %s" % (s.ident, J, slot, D))
                else:
                    g.require(slot is None, "env:cond-slot-set-for-non-parallel-run",
                              "%s (parallelizable=%s, jobs=%d) sees COND_SLOT=%r; %s" % (s.ident, s.par, J, slot, D))
            if maxc >= 2:
                g.goal("two tasks in parallel slots")
            if maxc >= J and J >= 2 and len(procs) > J:
                g.goal("slot recycled after a completion")
            if any(not specs[idx[p.name]].par for p in procs) and any(specs[idx[p.name]].par for p in procs) and J > 1:
                g.goal("sequential and parallelizable tasks in one run")
            return {"nontrivial": len(procs) >= 2,
                    "sample": {"tasks": D, "spawns": [(p.name, p.t_spawn, p.t_exit, p.env.get("COND_SLOT")) for p in procs]}}
        finally:
            res.proj.cleanup()
    return fn


def spaces(tier):
    goals = ["two tasks in parallel slots", "slot recycled after a completion", "sequential and parallelizable tasks in one run"]
    sp = [Space("n3-allkinds-j2", make(3, graphs.ALL_KINDS, 2),
                "N<=3, every edge set, deps forward/reversed, 4 kinds, par bits, jobs 1..2 (symbolic), every completion "
                "order, at most one failure (symbolic exit status or failed launch), ambient COND_SLOT bit", depth=8,
                goals=goals, outside=["N>4", "jobs>3"]),
          Space("n5-fanin-j2", make(5, ("run_command", "group"), 2, ambient_bit=False, launch=True, all_ok=True, jobs_lo=2),
                "5 tasks: a group root depending on 4 run_command tasks, every edge set among the four, deps forward/reversed, "
                "par bits, --jobs 2, every completion order, at most one failed launch, all exit 0", depth=10,
                preset={"e0_4": True, "e1_4": True, "e2_4": True, "e3_4": True, "k0": 0, "k1": 0, "k2": 0, "k3": 0, "k4": 1,
                        "rev4": False})]
    from vlib import induct
    sp.append(Space("inductive-launch-step", induct.launch_step,
                    "ONE real _launch_ops_if_able step from an arbitrary executor state satisfying the representation invariant: "
                    "1..4 slots, 0..slots operations in flight (slots any injective assignment, free list in any order), "
                    "running_parallel bit, 0..3 ready operations (par bits, failed-dependency bits); covers runs of any length and "
                    "graphs of any size", depth=6, goals=["inductive step launches an operation", "inductive step launches two operations"]))
    sp.append(Space("inductive-wait-step", induct.wait_step,
                    "ONE real _wait_for_next_inflight_op step from an arbitrary valid state: which operation finishes, its exit "
                    "status (symbolic), 0..1 dependent with 0..1 other unfinished dependency", depth=6,
                    goals=["inductive step completes an operation"]))
    if tier == "thorough":
        sp.append(Space("n4-subprocess-j3", make(4, ("run_experiment", "run_command"), 3, ambient_bit=False),
                        "N=4, kinds {run_experiment, run_command}, jobs 1..3, every completion order", depth=10, tiers=("thorough",)))
        sp.append(Space("n3-allkinds-j3", make(3, graphs.ALL_KINDS, 3, orders="all"),
                        "N=3, all kinds, all permutations, jobs 1..3, ambient bit", depth=8, tiers=("thorough",)))
    return sp


def canaries(tier):
    par3 = {"e0_1": False, "e0_2": False, "e1_2": False, "k0": 1, "k1": 1, "k2": 1, "p0": True, "p1": True, "p2": True,
            "jobs": 2, "ambient_slot": False}
    return [
        Canary("slot-gate-off-by-one",
               lambda: rewrite("conductor.execution.executor", "Executor._launch_ops_if_able",
                               "len(self._inflight_ops) < self._slots", "len(self._inflight_ops) <= self._slots"),
               preset={"e0_1": False, "e0_2": True, "e1_2": True, "k0": 1, "k1": 1, "k2": 1, "p0": True, "p1": True,
                       "p2": True, "jobs": 1, "ambient_slot": False}),
        Canary("slot-not-popped-on-launch",
               lambda: rewrite("conductor.execution.executor", "Executor._launch_ops_if_able",
                               "self._available_slots.pop()", "pass"),
               preset={"e0_1": False, "e0_2": True, "e1_2": True, "k0": 1, "k1": 1, "k2": 1, "p0": True, "p1": True,
                       "p2": True, "jobs": 2, "ambient_slot": False}),
    ]
