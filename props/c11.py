"""C11 - archive then restore reproduces exactly the selected versions.

Projects with experiments in nested packages (names with leading '-'/'_'), a
non-archivable task in between, 0..2 recorded versions each (commit NULL or a
hash, dirty bit), output trees from a small alphabet (files, empty/binary
files, nested and empty directories, symlinks - valid and dangling -, names
with spaces/unicode); `cond archive [T] [--latest]` then `cond restore` into a
fresh project, through the real CLI code, real tar and real sqlite.  The
selection rule is the oracle.
"""
import os

from vlib import fakeos, hrun
from vlib.hrun import TaskSpec
from conductor.config import ARCHIVE_STAGING as _STAGING
from vlib.runner import Space, Canary, rewrite

ID = "C11"
LEVEL = "exploration"
SOLVER_SHARE = "low"
RULE = ("one case = (names/packages, dependency edges, versions per experiment with commit/dirty, output tree kind, "
        "target task or none, --latest); non-trivial = at least one version selected and at least one not selected, or a "
        "shared dependency in the closure")
TRUSTED = ["real GNU tar, sqlite, tmpfs", "selection oracle in props/c11.py"]
ASSUMPTIONS = ["restore target project has the same COND files and none of the archived versions", "one invocation at a time"]

E0_NAMES = ("a", "-x", "_y")
E0_PKGS = ("", "p/q")
E1_PKGS = ("", "p")
HASH = "ab" * 20


def tree_plain(d):
    (d / "stdout.log").write_bytes(b"out\n")
    (d / "stderr.log").write_bytes(b"")
    (d / "result.bin").write_bytes(bytes(range(256)) * 3)
    (d / "sub" / "deep").mkdir(parents=True)
    (d / "sub" / "deep" / "x.txt").write_text("nested")
    (d / "empty-dir").mkdir()
    (d / "name with space é.txt").write_text("unicode")
    (d / "read-only.txt").write_text("ro")
    os.chmod(str(d / "read-only.txt"), 0o444)
    (d / "private-dir").mkdir()
    os.chmod(str(d / "private-dir"), 0o700)


def tree_links(d):
    tree_plain(d)
    os.symlink("result.bin", str(d / "link-to-sibling"))
    os.symlink("sub", str(d / "link-to-dir"))


def tree_dangling(d):
    tree_plain(d)
    os.symlink("does-not-exist", str(d / "dangling"))


def tree_outward(d):
    tree_plain(d)
    os.symlink("/etc/hostname", str(d / "absolute-link"))
    os.symlink("../../elsewhere/x", str(d / "link-leaving-the-output"))


TREES = (("plain", tree_plain), ("symlinks", tree_links), ("dangling-symlink", tree_dangling), ("outward-symlinks", tree_outward))


def make(trees=TREES, reduced=False, preset_structure=False):
    def fn(g):
        n0 = E0_NAMES[g.choose("e0name", len(E0_NAMES))]
        p0 = E0_PKGS[g.choose("e0pkg", len(E0_PKGS))]
        p1 = "p" if reduced else E1_PKGS[g.choose("e1pkg", len(E1_PKGS))]
        has_mid = g.flag("mid")
        e1_dep_e0 = g.flag("e1_e0")
        e1_dep_mid = has_mid and g.flag("e1_mid")
        mid_dep_e0 = has_mid and g.flag("mid_e0")
        rev = g.flag("rev") if (e1_dep_e0 and e1_dep_mid) else False
        E0 = TaskSpec(n0, "run_experiment", [], pkg=p0)
        M = TaskSpec("mid", "run_command", [E0.ident] if mid_dep_e0 else [], pkg="")
        deps1 = ([E0.ident] if e1_dep_e0 else []) + ([M.ident] if e1_dep_mid else [])
        if rev:
            deps1.reverse()
        E1 = TaskSpec("b1", "run_experiment", deps1, pkg=p1)
        specs = [E0, E1] + ([M] if has_mid else [])
        nv0 = g.choose("nv0", 3)
        nv1 = g.choose("nv1", 3)
        commit = HASH if g.flag("commit") else None
        dirty = (True if reduced else g.flag("dirty")) if commit else False
        tname, tfn = trees[g.choose("tree", len(trees))] if len(trees) > 1 else trees[0]
        targets = [None, E1.ident, E0.ident] + ([M.ident] if has_mid else [])
        target = targets[g.choose("target", len(targets))]
        latest = g.flag("latest")
        A = hrun.Project()
        B = hrun.Project()
        arch = os.path.join(hrun.SCRATCH_BASE, "arch-%s.tar.gz" % os.path.basename(str(A.root)))
        try:
            for P in (A, B):
                P.write_tasks(specs)
            rows = []
            # e.g. a restore of an older archive after a newer run (matters only when a task has two versions)
            newest_first = g.flag("recorded_newest_first") if max(nv0, nv1) == 2 else False
            plan = [(E0, (5, 9)[:nv0]), (E1, (6, 12)[:nv1])]
            if newest_first:
                plan = [(sp_, tuple(reversed(t_))) for sp_, t_ in plan]
            for spec, tss in plan:
                for ts in tss:
                    d = A.add_version(spec.ident, ts, commit=commit, dirty=dirty, files={})
                    tfn(d)
                    rows.append((spec.ident, ts, commit, 1 if dirty else 0))
            D = "tasks=%s versions (in recording order)=%s tree=%s target=%s latest=%s" % (
                ["%s deps=%s" % (s.ident, s.deps) for s in specs], [(r[0], r[1]) for r in rows], tname, target, latest)
            # ---- oracle
            if target is None:
                tasks = None
            else:
                closure = set()
                st = [target]
                by = {s.ident: s for s in specs}
                while st:
                    x = st.pop()
                    if x in closure:
                        continue
                    closure.add(x)
                    st.extend(by[x].deps)
                tasks = {t for t in closure if by[t].kind == "run_experiment"}
            sel = [r for r in rows if tasks is None or r[0] in tasks]
            if latest:
                sel = [r for r in sel if r[1] == max(x[1] for x in sel if x[0] == r[0])]
            sel = sorted(sel)
            if nv0 == 1 and nv1 == 1 and g.flag("stale_archive_index"):
                # what a killed `cond archive` leaves behind: its temporary index with a committed selection
                from conductor.execution.version_index import VersionIndex, Version
                from conductor.task_identifier import TaskIdentifier
                sti = VersionIndex.create_or_load(A.out / "version_index_archive.sqlite")
                for r_ in rows[:1]:
                    sti.insert_output_version(TaskIdentifier.from_str(r_[0]), Version(r_[1], r_[2], bool(r_[3])))
                sti.insert_output_version(TaskIdentifier.from_str("//zz:stale"), Version(77, None, False))
                sti.commit_changes()
                sti = None
                g.goal("temporary archive index left by a killed archive")
            before_rows = A.index_rows()
            before_dig = hrun.tree_digest(A.out, exclude=("version_index.sqlite", "version_index_archive.sqlite"))
            argv = ["archive"] + ([target] if target else []) + (["--latest"] if latest else []) + ["-o", arch]
            res = hrun.invoke_argv(argv, str(A.root), fakeos.Kernel(fakeos.Sched()))
            if isinstance(res.status, str):
                g.require(False, "archive:crash:" + res.status[4:], "%s; %s" % (res.exc, D))
            g.require(A.index_rows() == before_rows and hrun.tree_digest(A.out, exclude=("version_index.sqlite", "version_index_archive.sqlite")) == before_dig,
                      "archive:source-project-changed", "rows/outputs of the source project changed; %s" % D)
            if not sel:
                g.require(res.status == 1 and not os.path.exists(arch), "archive:nothing-to-archive-not-reported",
                          "status=%r archive exists=%s; %s" % (res.status, os.path.exists(arch), D))
                g.goal("nothing to archive")
                return {"nontrivial": False, "sample": {"case": D, "selected": []}}
            g.require(res.status == 0 and os.path.exists(arch), "archive:failed",
                      "status=%r error=%s err=%r; %s" % (res.status, res.error_class, res.err[-300:], D))
            # ---- restore into a project that lacks those versions (it may be another git repository, which lacks the commits too)
            other_repo = g.flag("destination_is_another_git_repository") if (not latest and not target) else False
            if other_repo:
                B.write("cond_config.toml", "")
                D += " destination: another git repository"
            r2 = hrun.invoke_argv(["restore", arch], str(B.root), fakeos.Kernel(OtherRepo() if other_repo else fakeos.Sched()))
            if isinstance(r2.status, str):
                g.require(False, "restore:crash:" + r2.status[4:], "%s; %s" % (r2.exc, D))
            g.require(r2.status == 0, "restore:failed", "status=%r error=%s err=%r; %s" % (r2.status, r2.error_class, r2.err[-300:], D))
            got = sorted(B.index_rows())
            g.require(got == sel, "restore:wrong-versions", "restored rows %s, selected %s; %s" % (got, sel, D))
            for ident, ts, _, _ in sel:
                pkg, nm = ident[2:].rsplit(":", 1)
                rel = os.path.join(pkg, "%s.task.%d" % (nm, ts))
                da = hrun.tree_digest(A.out / rel)
                db = hrun.tree_digest(B.out / rel)
                diff = sorted(k for k in set(da) | set(db) if da.get(k) != db.get(k))
                g.require(not diff, "restore:tree-differs" + (":symlink" if any(da.get(k, ("",))[0] == "link" for k in diff) else ""),
                          "%s differs in %s (archived %s, restored %s); %s" % (rel, diff[:4], [da.get(k) for k in diff[:2]], [db.get(k) for k in diff[:2]], D))
            extra = [k for k in hrun.tree_digest(B.out, exclude=("version_index.sqlite",)) if ".task." in k.split(os.sep)[-1]
                     and not any(k.endswith("%s.task.%d" % (i[2:].rsplit(":", 1)[1], t)) for i, t, _, _ in sel)]
            g.require(not extra, "restore:unselected-output-restored", "%s; %s" % (extra, D))
            g.require(not (B.out / _STAGING).exists(), "restore:staging-left-behind", D)
            if len(sel) < len(rows):
                g.goal("some versions not selected")
            if target and mid_dep_e0 and e1_dep_mid and e1_dep_e0 and target == E1.ident:
                g.goal("shared dependency in the archived closure")
            if n0 == "-x" and not p0:
                g.goal("root-level task name with a leading hyphen")
            return {"nontrivial": len(sel) < len(rows) or (mid_dep_e0 and e1_dep_mid and e1_dep_e0),
                    "sample": {"case": D, "selected": [(r[0], r[1]) for r in sel]}}
        finally:
            A.cleanup()
            B.cleanup()
            if os.path.exists(arch):
                os.unlink(arch)
    return fn


def scale_fn(g):
    """More versions / archivable tasks than any batch or worker count."""
    shape = ("three-tasks-three-versions", "closure-of-34-experiments")[g.choose("shape", 2)]
    latest = g.flag("latest")
    named = g.flag("task_named")
    A = hrun.Project()
    B = hrun.Project()
    arch = os.path.join(hrun.SCRATCH_BASE, "arch-%s.tar.gz" % os.path.basename(str(A.root)))
    try:
        if shape.startswith("three"):
            specs = [TaskSpec("x", "run_experiment", [], pkg="exp"), TaskSpec("y", "run_experiment", ["//exp:x"], pkg="exp/inner"),
                     TaskSpec("m", "run_command", ["//exp/inner:y"], pkg=""), TaskSpec("z", "run_experiment", ["//:m"], pkg="exp/inner/most"),
                     TaskSpec("all", "group", ["//exp/inner/most:z"], pkg="")]
            exps = specs[:2] + [specs[3]]
            nver = 3
        else:
            exps = [TaskSpec("i%d" % i, "run_experiment", [], pkg="sweep") for i in range(34)]
            specs = exps + [TaskSpec("all", "combine", [e.ident for e in exps], pkg="")]
            nver = 2
        for P in (A, B):
            P.write_tasks(specs)
        rows = []
        for v in range(nver):
            for k, e in enumerate(exps):
                ts = 1000 * (v + 1) + k
                d = A.add_version(e.ident, ts, files={})
                tree_plain(d)
                rows.append((e.ident, ts, None, 0))
        sel = sorted(rows)
        if latest:
            sel = [r for r in sel if r[1] == max(x[1] for x in rows if x[0] == r[0])]
        argv = ["archive"] + (["//:all"] if named else []) + (["--latest"] if latest else []) + ["-o", arch]
        D = "%s versions=%d latest=%s task_named=%s" % (shape, len(rows), latest, named)
        res = hrun.invoke_argv(argv, str(A.root), fakeos.Kernel(fakeos.Sched()), timeout=200)
        if isinstance(res.status, str):
            g.require(False, "archive:crash:" + res.status[4:], "%s; %s" % (res.exc, D))
        g.require(res.status == 0 and os.path.exists(arch), "archive:failed", "status=%r err=%r; %s" % (res.status, res.err[-200:], D))
        r2 = hrun.invoke_argv(["restore", arch], str(B.root), fakeos.Kernel(fakeos.Sched()), timeout=200)
        if isinstance(r2.status, str):
            g.require(False, "restore:crash:" + r2.status[4:], "%s; %s" % (r2.exc, D))
        g.require(r2.status == 0, "restore:failed", "status=%r err=%r; %s" % (r2.status, r2.err[-200:], D))
        got = sorted(B.index_rows())
        g.require(got == sel, "restore:wrong-versions", "restored %d rows, selected %d (missing e.g. %s); %s" % (
            len(got), len(sel), [(r[0], r[1]) for r in sel if r not in got][:3], D))
        for ident, ts, _, _ in sel:
            pkg, nm = ident[2:].rsplit(":", 1)
            rel = os.path.join(pkg, "%s.task.%d" % (nm, ts))
            g.require(hrun.tree_digest(A.out / rel) == hrun.tree_digest(B.out / rel) and (B.out / rel).is_dir(), "restore:tree-differs",
                      "%s missing or different after restore; %s" % (rel, D))
        g.goal("archive of more than 8 versions")
        return {"nontrivial": True, "sample": {"case": D, "restored": len(got)}}
    finally:
        A.cleanup()
        B.cleanup()
        if os.path.exists(arch):
            os.unlink(arch)


class OtherRepo(fakeos.Sched):
    """git in a repository that has one commit of its own and none of the archive's."""

    def git(self, kernel, argv, cwd):
        if argv[:2] == ["rev-parse", "--git-dir"]:
            return ".git\n", 0
        if argv[0] == "rev-parse" and any(a.startswith("HEAD") for a in argv[1:]):
            return "9" * 40 + "\n", 0
        if argv[:2] == ["diff-index", "--quiet"]:
            return "", 0
        return "", 128          # unknown objects: cat-file -e, merge-base, rev-list ... fail


def spaces(tier):
    goals = ["nothing to archive", "some versions not selected", "shared dependency in the archived closure",
             "root-level task name with a leading hyphen", "temporary archive index left by a killed archive"]
    sp = [Space("scale-many-versions", scale_fn, "3 experiments in nested packages x 3 versions (9 versions), or a combine over 34 "
                "experiments x 2 versions (68 versions); --latest bit; task named or not", depth=3, goals=["archive of more than 8 versions"]),
          Space("selection", make(trees=TREES[:1], reduced=True), "as 'two-experiments' below with the plain output tree, the second "
                "experiment fixed in package p and commit/dirty in {NULL/clean, hash/dirty}", depth=8, goals=goals, tiers=("quick",)),
          Space("output-trees", make(reduced=True), "fixed structure (//p/q:a and //p:b1, one version each, archive everything) x "
                "4 output tree kinds (plain incl. read-only file and 0700 dir, in-tree symlinks, dangling symlink, absolute / "
                "outward symlinks) x commit/dirty x --latest", depth=4, tiers=("quick",),
                preset={"e0name": 0, "e0pkg": 1, "mid": False, "e1_e0": True, "nv0": 1, "nv1": 1, "target": 0}),
          Space("two-experiments", make(), "2 experiments (first one named a | -x | _y, packages root/p/p/q) + optional run_command between "
                "them, all dependency edges, 0..2 versions each, commit NULL|hash, dirty bit, 3 output tree kinds, target {none, each "
                "task}, --latest", depth=8, goals=goals, outside=["3+ experiments", "archives from other Conductor versions", "hard links, devices"], tiers=("thorough",))]
    return sp


def canaries(tier):
    return [
        Canary("all-entries-latest-uses-min",
               lambda: _replace_query("all_entries_latest", "MAX(timestamp)", "MIN(timestamp)"),
               preset={"nv0": 2, "nv1": 2, "latest": True, "target": 0, "tree": 0},
               space="selection" if tier == "quick" else "two-experiments"),
        Canary("closure-stops-at-non-archivable-tasks",
               lambda: rewrite("conductor.task_types.base", "TaskType.traverse",
                               "for dep in task.deps:", "for dep in (task.deps if task.archivable else ()):"),
               preset={"mid": True, "e1_e0": False, "e1_mid": True, "mid_e0": True, "nv0": 1, "nv1": 1, "target": 1, "tree": 0},
               space="selection" if tier == "quick" else "two-experiments"),
    ]


class _replace_query:
    def __init__(self, name, old, new):
        self.name, self.old, self.new = name, old, new

    def __enter__(self):
        import conductor.execution.version_index_queries as q
        from vlib.runner import StaleCanary
        src = getattr(q, self.name, None)
        if src is None or src.count(self.old) != 1:
            raise StaleCanary("query %s" % self.name)
        self.q, self.saved = q, src
        setattr(q, self.name, src.replace(self.old, self.new))
        return self

    def __exit__(self, *a):
        setattr(self.q, self.name, self.saved)
        return False
