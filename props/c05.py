"""C05 - cached-result selection follows the documented compatibility rule.

The commit DAG stays symbolic: parent relations are solver Booleans, ancestry
and commit distance are z3 terms over them, and the fake `git` child answers
Conductor's questions by forking on the term's truth/value - only the facts the
code actually asks about get decided.  The documented rule is written as z3
terms over the same variables; `pc => observed decision == documented
decision` is discharged per path, so a skipped version, swapped arguments or a
wrong tie-break yield a model = a concrete history (replayed with real git).
"""
import os
import re
import shutil
import subprocess
import tempfile

import z3

from vlib import fakeos, graphs, hrun, symx
from vlib.runner import Space, Lemma, Canary, rewrite, setattr_patch

ID = "C05"
LEVEL = "model_checking"
SOLVER_SHARE = "high"
RULE = ("one case = one feasible path: git mode, commit DAG facts Conductor asked about (the rest stays symbolic), HEAD, "
        "dirty bit, recorded versions (timestamps, commit or NULL or unknown hash), flag combination; non-trivial = git "
        "in use with at least one recorded version carrying a commit")
TRUSTED = ["z3 (QF_LIA)", "fake git child: answers computed from the symbolic DAG (validated against /usr/bin/git on all DAGs with <=4 commits in the lemma)",
           "fake kernel contract (DESIGN 4)", "sqlite (real)"]
ASSUMPTIONS = ["commit i has parents only among commits j<i (every DAG has such a numbering)", "every non-root commit has >=1 parent; octopus merges limited by M",
               "no grafts/shallow clones/replace objects"]

GM = ("no-repo", "disabled", "no-commits", "dag")
FLAGS = ("none", "again", "this-commit", "at-least", "both-commit-flags", "again+commit")


def H(i):
    return "c%d" % i + "0" * 38


class Dag:
    """Symbolic commit DAG over M commits."""

    def __init__(self, g, M):
        self.g, self.M = g, M
        self.p = {}
        for i in range(M):
            for j in range(i):
                self.p[(i, j)] = g.term(g.fresh_bool("par%d_%d" % (i, j)))
        for i in range(1, M):
            g.assume(g.lift(z3.Or(*[self.p[(i, j)] for j in range(i)])))
        self._reach = {}

    def reach(self, i, j):
        """z3 term: j is an ancestor of (or equal to) i."""
        if j > i:
            return z3.BoolVal(False)
        if i == j:
            return z3.BoolVal(True)
        k = (i, j)
        if k not in self._reach:
            self._reach[k] = z3.Or(*[z3.And(self.p[(i, m)], self.reach(m, j)) for m in range(j, i)])
        return self._reach[k]

    def dist(self, s, a):
        """z3 term: |reach(s) minus reach(a)| (git rev-list --count s ^a)."""
        return z3.Sum(*[z3.If(z3.And(self.reach(s, j), z3.Not(self.reach(a, j))), 1, 0) for j in range(self.M)]) \
            if self.M > 1 else z3.IntVal(0)


_REPOS = {}
_GIT_ENV = dict(GIT_AUTHOR_NAME="v", GIT_AUTHOR_EMAIL="v@v", GIT_COMMITTER_NAME="v", GIT_COMMITTER_EMAIL="v@v",
                GIT_AUTHOR_DATE="2020-01-01T00:00:00", GIT_COMMITTER_DATE="2020-01-01T00:00:00", HOME="/nonexistent",
                GIT_CONFIG_NOSYSTEM="1", PATH=os.environ.get("PATH", "/usr/bin:/bin"))


def real_repo(M, par):
    """A real repository with the given parent relation (cached per process)."""
    key = (M, tuple(sorted(par.items())))
    if key in _REPOS and os.path.isdir(_REPOS[key][0]):
        return _REPOS[key]
    d = tempfile.mkdtemp(prefix="verif-git-", dir=hrun.SCRATCH_BASE)

    def git(*a):
        return subprocess.run(["git"] + list(a), cwd=d, env=_GIT_ENV, capture_output=True, text=True).stdout.strip()
    git("init", "-q")
    tree = git("write-tree")
    hashes = []
    for i in range(M):
        args = ["commit-tree", tree, "-m", "c%d" % i]
        for j in range(i):
            if par[(i, j)]:
                args += ["-p", hashes[j]]
        hashes.append(git(*args))
    _REPOS[key] = (d, hashes)
    return _REPOS[key]


class GitSched(graphs.SymSched):
    def __init__(self, g, mode, dag, head, dirty):
        super().__init__(g, all_ok=True, on_spawn=graphs.output_writer)
        self.mode, self.dag, self.head, self.dirty = mode, dag, head, dirty
        self.asked = []

    def idx(self, h):
        """Commit index of a hash; the hash of an annotated tag object (a<i>00..) and the tag name (tag<i>) are peeled to
        the commit they point at, as git does for merge-base / rev-list."""
        m = re.fullmatch(r"[ca](\d)0{38}", h) or re.fullmatch(r"tag(\d)", h)
        if m and self.dag is not None and int(m.group(1)) < self.dag.M:
            return int(m.group(1))
        return None

    def git(self, kernel, argv, cwd):
        g = self.g
        if self.mode == "no-repo":
            return "", 128
        if argv[:2] == ["rev-parse", "--git-dir"]:
            return ".git\n", 0
        if self.mode == "no-commits":
            return "", 128
        if argv[0] == "rev-parse":
            args_ = [a for a in argv[1:] if not a.startswith("-")]          # (--verify, -q ...)
            if len(args_) != 1:
                return self.ask_real_git(kernel, argv)
            sym = args_[0]
            peel = False
            for suffix in ("^{commit}", "^{}", "^0", "~0"):
                if sym.endswith(suffix):
                    sym, peel = sym[:-len(suffix)], True
            if sym == "HEAD":
                return H(self.head) + "\n", 0
            mt = re.fullmatch(r"tag(\d)", sym)
            if mt and self.dag is not None and int(mt.group(1)) < self.dag.M:
                # an annotated tag: its own object id unless peeled
                return (H(int(mt.group(1))) if peel else "a%s" % mt.group(1) + "0" * 38) + "\n", 0
            if self.idx(sym) is not None:
                return (H(self.idx(sym)) if peel else sym) + "\n", 0
            return "", 128
        if argv[:2] == ["diff-index", "--quiet"]:
            return "", (1 if self.dirty else 0)
        if argv[:2] == ["merge-base", "--is-ancestor"] and len(argv) == 4:
            a, d = self.idx(argv[2]), self.idx(argv[3])
            if a is None or d is None:
                return "", 128
            self.asked.append(("anc", a, d))
            return "", (0 if bool(g.lift(self.dag.reach(d, a))) else 1)
        if argv[:2] == ["rev-list", "--count"] and len(argv) == 4 and argv[3].startswith("^") and not argv[2].startswith("-"):
            s, a = self.idx(argv[2]), self.idx(argv[3].lstrip("^"))
            if s is None or a is None:
                return "", 128
            self.asked.append(("dist", s, a))
            n = g.concretize(self.dag.dist(s, a))
            return "%d\n" % n, 0
        return self.ask_real_git(kernel, argv)

    def ask_real_git(self, kernel, argv):
        """A command line the emulator does not model: fix the whole DAG (forking
        over the parent relation), build it with /usr/bin/git and ask that."""
        g = self.g
        par = {k: bool(g.lift(v)) for k, v in self.dag.p.items()}
        kernel.bypass = True
        try:
            d, hashes = real_repo(self.dag.M, par)
        finally:
            kernel.bypass = False
        fwd = {H(i): hashes[i] for i in range(self.dag.M)}
        fwd["HEAD"] = hashes[self.head]
        real_argv = []
        for a in argv:
            for fake, real in fwd.items():
                a = a.replace(fake, real)
            real_argv.append(a)
        kernel.bypass = True
        try:
            p = subprocess.run(["git"] + real_argv, cwd=d, env=_GIT_ENV, capture_output=True, text=True)
        finally:
            kernel.bypass = False
        out = p.stdout
        for i, h in enumerate(hashes):
            out = out.replace(h, H(i))
        self.asked.append(("real-git", tuple(argv), p.returncode))
        return out, p.returncode


def make(M, K, flags=FLAGS, modes=GM, known_commits_only=False, tags=False, dependent="d"):
    def fn(g):
        import conductor.cli.run as cli_run
        import conductor.cli.where as cli_where
        mode = modes[g.choose("gitmode", len(modes))] if len(modes) > 1 else modes[0]
        dag = head = None
        dirty = False
        if mode in ("dag", "disabled"):
            m = g.choose("M", M) + 1
            dag = Dag(g, m)
            head = g.choose("head", m)
            dirty = g.flag("dirty")
        # recorded versions of //:e
        k = g.choose("K", K + 1)
        rows = []
        tsv = []
        for r in range(k):
            t = g.fresh_int("ts%d" % r, 1, k + 1, opaque=False)
            for prev in tsv:
                g.assume(t != prev)
            tsv.append(t)
        commits_pool = ["NULL"] + ([H(i) for i in range(dag.M)] if dag is not None else [H(0)]) + ["f" * 40]
        if known_commits_only and dag is not None:
            commits_pool = [H(i) for i in range(dag.M)]
        for r in range(k):
            c = commits_pool[g.choose("vc%d" % r, len(commits_pool))]
            rows.append({"ts": int(tsv[r]), "commit": None if c == "NULL" else c, "dirty": False})
        flag = flags[g.choose("flag", len(flags))] if len(flags) > 1 else flags[0]
        at_least = None
        if flag in ("at-least", "both-commit-flags", "again+commit"):
            pool = [H(i) for i in range(dag.M)] if dag is not None else [H(0)]
            pool.append("nosuchbranch")
            if dag is not None and tags:
                pool += ["tag%d" % i for i in range(dag.M)]          # annotated tags
            at_least = pool[g.choose("atleast", len(pool))]
        proj = hrun.Project(config=("disable_git = true\n" if mode == "disabled" else ""))
        try:
            proj.write("COND", "run_experiment(name='e', run='true')\nrun_command(name='d', run='true', deps=[':e'])\n"
                       "combine(name='k', deps=[':e'])\n")
            for row in rows:
                proj.add_version("//:e", row["ts"], commit=row["commit"], dirty=row["dirty"])
            D = "mode=%s M=%s head=%s dirty=%s rows=%s flag=%s at_least=%s" % (
                mode, dag.M if dag else None, head, dirty, [(r["ts"], (r["commit"] or "NULL")[:2]) for r in rows], flag, at_least and at_least[:2])
            # ---- observation 1: cond where
            sched = GitSched(g, mode, dag, head, dirty)
            kern = fakeos.Kernel(sched, clock=fakeos.Clock())
            import argparse
            wres = hrun.invoke(cli_where.main, argparse.Namespace(task_identifier="//:e", project=False, non_existent_ok=False, debug=False),
                               str(proj.root), kern)
            # ---- observation 2: cond run //:d
            sched2 = GitSched(g, mode, dag, head, dirty)
            kern2 = fakeos.Kernel(sched2, clock=fakeos.Clock())
            ns = hrun.run_ns(task_identifier="//:" + dependent, again=flag in ("again", "again+commit"),
                             this_commit=flag in ("this-commit", "both-commit-flags"),
                             at_least=at_least if flag in ("at-least", "both-commit-flags", "again+commit") else None)
            res = hrun.invoke(cli_run.main, ns, str(proj.root), kern2)
            for rr in (wres, res):
                if isinstance(rr.status, str):
                    g.require(False, "select:crash:" + rr.status, "%r; %s" % (rr.exc, D))
            uses_commits = mode == "dag"
            # ---- the documented rule as terms
            def newest():
                return max(rows, key=lambda r: r["ts"]) if rows else None
            Z = z3
            if uses_commits:
                elig = []
                dist = []
                for r in rows:
                    ci = sched.idx(r["commit"]) if r["commit"] else None
                    elig.append(dag.reach(head, ci) if ci is not None else Z.BoolVal(False))
                    dist.append(dag.dist(head, ci) if ci is not None else Z.IntVal(0))
                any_elig = Z.Or(*elig) if elig else Z.BoolVal(False)
                all_null = bool(rows) and all(r["commit"] is None for r in rows)
                sel = []
                for i, r in enumerate(rows):
                    better = [Z.Implies(elig[j], Z.Or(dist[i] < dist[j], Z.And(dist[i] == dist[j], r["ts"] > rows[j]["ts"])))
                              for j in range(len(rows)) if j != i]
                    best = Z.And(elig[i], *better)
                    fallback = Z.And(Z.Not(any_elig), Z.BoolVal(all_null and r is newest()))
                    sel.append(Z.Or(best, fallback))
                none_sel = Z.And(Z.Not(any_elig), Z.BoolVal(not all_null))
            else:
                sel = [Z.BoolVal(r is newest()) for r in rows]
                none_sel = Z.BoolVal(not rows)
            S = g.lift
            # ---- cond where reports exactly the selected version
            m = re.search(r"e\.task\.(\d+)\s*$", wres.out)
            w_ts = int(m.group(1)) if (m and wres.status == 0) else None
            for i, r in enumerate(rows):
                g.require(S(sel[i] == Z.BoolVal(w_ts == r["ts"])), "select:where-reports-wrong-version",
                          "cond where printed %r (status %r); %s" % (wres.out.strip()[-40:], wres.status, D))
            g.require(S(none_sel == Z.BoolVal(w_ts is None)), "select:where-reports-wrong-version",
                      "cond where printed %r (status %r) ; %s" % (wres.out.strip()[-40:], wres.status, D))
            # ---- flag validation
            rejected = None
            if flag == "both-commit-flags":
                rejected = Z.BoolVal(True)
            elif flag == "again+commit":
                rejected = Z.BoolVal(True)
            elif flag in ("this-commit", "at-least"):
                if not uses_commits:
                    rejected = Z.BoolVal(True)
                elif flag == "at-least":
                    ci = sched.idx(at_least)
                    rejected = Z.BoolVal(True) if ci is None else Z.Not(dag.reach(head, ci))
                else:
                    rejected = Z.BoolVal(False)
            else:
                rejected = Z.BoolVal(False)
            spawned = {p.name for p in kern2.tasks()}
            was_rejected = (res.status == 1 and not spawned and "ERROR:" in res.err)
            g.require(S(rejected == Z.BoolVal(was_rejected)) if res.status in (0, 1) else False, "select:flag-validation",
                      "status=%r spawned=%s err=%r; %s" % (res.status, sorted(spawned), res.err[-160:], D))
            if was_rejected:
                g.goal("flag combination rejected")
                return {"nontrivial": False, "sample": {"case": D, "rejected": True}}
            # ---- what ran, what the dependent saw
            e_ran = "e" in spawned
            if dependent == "k":
                # the dependent is a combine task: what it exposes under the dependency's name
                entry = proj.out / "k.task" / "e"
                g.require(res.status == 0 and os.path.lexists(str(entry)), "select:run-failed", "status=%r, k.task/e %s; %s" % (
                    res.status, "exists" if os.path.lexists(str(entry)) else "missing", D))
                deps = os.path.realpath(str(entry))
            else:
                dproc = [p for p in kern2.tasks() if p.name == "d"]
                g.require(len(dproc) == 1 and res.status == 0, "select:run-failed", "status=%r spawned=%s; %s" % (res.status, sorted(spawned), D))
                deps = dproc[0].env.get("COND_DEPS", "")
            m = re.search(r"e\.task\.(\d+)$", deps)
            d_ts = int(m.group(1)) if m else None
            info = hrun.parse_run_output(res)
            if flag == "again":
                rerun = Z.BoolVal(True)
            elif flag in ("this-commit", "at-least"):
                C = head if flag == "this-commit" else sched.idx(at_least)
                terms = [none_sel]
                for i, r in enumerate(rows):
                    ci = sched.idx(r["commit"]) if r["commit"] else None
                    if r["commit"] is None:
                        terms.append(sel[i])
                    elif ci is not None:
                        terms.append(Z.And(sel[i], dag.reach(C, ci), Z.BoolVal(ci != C)))
                rerun = Z.Or(*terms)
            else:
                rerun = none_sel
            g.require(S(rerun == Z.BoolVal(e_ran)), "select:wrong-run-decision",
                      "experiment %s; %s" % ("ran" if e_ran else "was reused", D))
            g.require(e_ran != ("//:e" in info["cached"]), "select:cached-report", "ran=%s cached lines=%s; %s" % (e_ran, info["cached"], D))
            if e_ran:
                eproc = [p for p in kern2.tasks() if p.name == "e"][0]
                g.require(os.path.realpath(deps) == os.path.realpath(eproc.env["COND_OUT"]), "select:dependent-sees-wrong-version",
                          "dependent got COND_DEPS=%r, experiment wrote %r; %s" % (deps, eproc.env["COND_OUT"], D))
                # recorded with HEAD's hash and dirty bit of this invocation
                new = [r for r in proj.index_rows() if r[1] not in [x["ts"] for x in rows]]
                want = (H(head) if uses_commits else None, 1 if (uses_commits and dirty) else 0)
                g.require(len(new) == 1 and (new[0][2], new[0][3]) == want, "select:recorded-commit",
                          "new rows %s, expected commit/dirty %s; %s" % (new, want, D))
            else:
                for i, r in enumerate(rows):
                    g.require(S(sel[i] == Z.BoolVal(d_ts == r["ts"])), "select:dependent-sees-wrong-version",
                              "dependent got COND_DEPS=%r; %s" % (deps, D))
            if uses_commits and any(r["commit"] and sched.idx(r["commit"]) is not None for r in rows):
                g.goal("git in use and a recorded version carries a known commit")
            if uses_commits and len([a for a in sched.asked if a[0] == "dist"]) >= 2:
                g.goal("two ancestor versions compared by distance")
            if uses_commits and flag in ("at-least", "this-commit") and not e_ran:
                g.goal("--at-least/--this-commit satisfied by a cached version")
            if uses_commits and flag == "at-least" and at_least.startswith("tag") and rows and rows[0]["commit"] == H(sched.idx(at_least)):
                g.goal("--at-least names an annotated tag on the cached version's commit")
            if uses_commits and flag == "at-least" and rows and rows[0]["commit"] and sched.idx(rows[0]["commit"]) is not None:
                ci_, C_ = sched.idx(rows[0]["commit"]), sched.idx(at_least)
                if C_ is not None and ci_ != C_ and not bool(g.lift(dag.reach(C_, ci_))) and not bool(g.lift(dag.reach(ci_, C_))):
                    g.goal("--at-least with a commit unrelated to the cached version's")
            return {"nontrivial": uses_commits and any(r["commit"] for r in rows),
                    "sample": {"case": D, "where": wres.out.strip()[-30:], "e_ran": e_ran, "COND_DEPS": deps[-24:],
                               "git_questions": sched.asked[:8]}}
        finally:
            proj.cleanup()
    return fn


# ---------------------------------------------------------------- emulator validation against real git

def lemma_git_conformance(M):
    def fn():
        import itertools
        import pathlib
        from vlib.symx import ConcreteEngine
        from conductor.utils.git import Git
        out = {"obligations": 0, "discharged": 0, "queries": 0, "solver_s": 0.0, "violations": [], "samples": [], "inconclusive": []}
        env = dict(os.environ, GIT_AUTHOR_NAME="v", GIT_AUTHOR_EMAIL="v@v", GIT_COMMITTER_NAME="v", GIT_COMMITTER_EMAIL="v@v",
                   GIT_AUTHOR_DATE="2020-01-01T00:00:00", GIT_COMMITTER_DATE="2020-01-01T00:00:00", HOME="/nonexistent", GIT_CONFIG_NOSYSTEM="1")
        pairs = [(i, j) for i in range(M) for j in range(i)]
        ndags = 0
        for bits in itertools.product([False, True], repeat=len(pairs)):
            par = dict(zip(pairs, bits))
            if any(not any(par[(i, j)] for j in range(i)) for i in range(1, M)):
                continue
            ndags += 1
            d = tempfile.mkdtemp(prefix="verif-git-", dir=hrun.SCRATCH_BASE)
            try:
                def git(*a, inp=None):
                    return subprocess.run(["git"] + list(a), cwd=d, env=env, capture_output=True, text=True, input=inp)
                git("init", "-q")
                tree = git("write-tree").stdout.strip()
                hashes = []
                for i in range(M):
                    args = ["commit-tree", tree, "-m", "c%d" % i]
                    for j in range(i):
                        if par[(i, j)]:
                            args += ["-p", hashes[j]]
                    hashes.append(git(*args).stdout.strip())
                vals = {"par%d_%d" % k: v for k, v in par.items()}
                cg = ConcreteEngine(vals)
                dag = Dag.__new__(Dag)
                dag.g, dag.M, dag._reach = cg, M, {}
                dag.p = {k: z3.BoolVal(v) for k, v in par.items()}
                real = Git(pathlib.Path(d))
                # HEAD as Conductor's wrapper reports it, for the ways a repository can store it: a branch with a loose ref
                # file, the same branch after `git pack-refs` / `git gc` (no loose file), a detached HEAD
                tip = hashes[M - 1]
                git("update-ref", "refs/heads/main", tip)
                git("symbolic-ref", "HEAD", "refs/heads/main")
                for how in ("loose ref", "packed refs", "detached HEAD"):
                    if how == "packed refs":
                        git("pack-refs", "--all", "--prune")
                    if how == "detached HEAD":
                        git("update-ref", "--no-deref", "HEAD", hashes[0])
                    out["obligations"] += 1
                    cur = real.current_commit()
                    want_ = hashes[0] if how == "detached HEAD" else tip
                    if cur is not None and cur.hash == want_ and real.is_used() and real.rev_parse("HEAD") == want_:
                        out["discharged"] += 1
                    else:
                        out["violations"].append(("select:head-misread", "HEAD stored as %s: conductor.utils.git reports %r, git says %s" % (
                            how, cur.hash if cur else None, want_), how))
                # annotated tags: the emulator's three assumptions about them
                for a in range(M):
                    git("tag", "-a", "tag%d" % a, "-m", "t", hashes[a])
                    tobj = git("rev-parse", "tag%d" % a).stdout.strip()
                    peeled = git("rev-parse", "tag%d^{commit}" % a).stdout.strip()
                    out["obligations"] += 2
                    if tobj != hashes[a] and peeled == hashes[a] and git("cat-file", "-t", tobj).stdout.strip() == "tag":
                        out["discharged"] += 1
                    else:
                        out["inconclusive"].append("git rev-parse of an annotated tag: %s / peeled %s / commit %s" % (tobj, peeled, hashes[a]))
                    # merge-base and rev-list accept the tag object's id and peel it
                    ok_ = all(real.is_ancestor(tobj, hashes[b]) == real.is_ancestor(hashes[a], hashes[b])
                              and real.is_ancestor(hashes[b], tobj) == real.is_ancestor(hashes[b], hashes[a])
                              and real.get_distance(tobj, hashes[b]) == real.get_distance(hashes[a], hashes[b]) for b in range(M))
                    if ok_:
                        out["discharged"] += 1
                    else:
                        out["inconclusive"].append("git does not peel the tag object %s like the emulator" % tobj)
                for a in range(M):
                    for b in range(M):
                        out["obligations"] += 2
                        em_anc = z3.is_true(z3.simplify(dag.reach(a, b)))
                        em_dist = z3.simplify(dag.dist(a, b)).as_long()
                        r_anc = real.is_ancestor(hashes[a], hashes[b])
                        r_dist = real.get_distance(hashes[a], hashes[b])
                        if em_anc == r_anc:
                            out["discharged"] += 1
                        else:
                            out["inconclusive"].append("fake git disagrees with git on ancestry %s %s parents=%s" % (a, b, par))
                        if em_dist == r_dist:
                            out["discharged"] += 1
                        else:
                            out["inconclusive"].append("fake git disagrees with git on distance %s %s parents=%s: %s vs %s" % (a, b, par, em_dist, r_dist))
            finally:
                shutil.rmtree(d, ignore_errors=True)
        out["samples"].append({"dags_compared_with_real_git": ndags, "commits": M})
        return out
    return fn


def history_fn(g):
    """Selection after the set of recorded versions changed through ANOTHER command: a version is selected (where / a cached
    run), an archive holding a closer version is restored, the selection is asked for again at the same HEAD."""
    import argparse
    import conductor.cli.where as cli_where
    import conductor.cli.run as cli_run
    first = ("where", "run", "nothing")[g.choose("first_command", 3)]
    better = ("at-HEAD", "at-parent-but-newer")[g.choose("restored_version", 2)]
    dag = Dag(g, 3)
    for (i, j), t in dag.p.items():
        g.assume(g.lift(t if (i, j) in ((1, 0), (2, 1)) else z3.Not(t)))        # the chain c0 <- c1 <- c2, HEAD = c2
    head = 2
    proj = hrun.Project(config="")
    src = hrun.Project(config="")
    try:
        text = "run_experiment(name='e', run='true')\nrun_command(name='d', run='true', deps=[':e'])\n"
        proj.write("COND", text)
        src.write("COND", text)
        proj.add_version("//:e", 10, commit=H(0))
        new_ts, new_commit = (20, H(2)) if better == "at-HEAD" else (20, H(1))
        src.add_version("//:e", new_ts, commit=new_commit)
        arch = str(src.root / "better.tar.gz")
        D = "recorded: version 10 at c0; HEAD=c2; first command: %s; then restore of an archive with version %d made %s; then where / run" % (
            first, new_ts, better)

        def kernel():
            return fakeos.Kernel(GitSched(g, "dag", dag, head, False), clock=fakeos.Clock())

        def where():
            r = hrun.invoke(cli_where.main, argparse.Namespace(task_identifier="//:e", project=False, non_existent_ok=False, debug=False), str(proj.root), kernel())
            m_ = re.search(r"e\.task\.(\d+)\s*$", r.out)
            return int(m_.group(1)) if (m_ and r.status == 0) else None
        ra = hrun.invoke_argv(["archive", "-o", arch], str(src.root), kernel())
        g.require(ra.status == 0, "select:harness-archive-failed", "%r %s" % (ra.status, ra.err[-200:]))
        if first == "where":
            g.require(where() == 10, "select:where-reports-wrong-version", "before the restore; %s" % D)
        elif first == "run":
            k1 = kernel()
            r1 = hrun.invoke(cli_run.main, hrun.run_ns(task_identifier="//:d"), str(proj.root), k1)
            g.require(r1.status == 0 and [p.name for p in k1.tasks()] == ["d"], "select:wrong-run-decision", "before the restore: spawned %s; %s" % ([p.name for p in k1.tasks()], D))
        rr = hrun.invoke_argv(["restore", arch], str(proj.root), kernel())
        g.require(rr.status == 0, "select:harness-restore-failed", "%r %s; %s" % (rr.status, rr.err[-200:], D))
        got = where()
        g.require(got == new_ts, "select:where-reports-wrong-version", "after the restore cond where selects version %s, the closest one is %d; %s" % (got, new_ts, D))
        k2 = kernel()
        r2 = hrun.invoke(cli_run.main, hrun.run_ns(task_identifier="//:d"), str(proj.root), k2)
        names = [p.name for p in k2.tasks()]
        deps = [p.env.get("COND_DEPS", "") for p in k2.tasks() if p.name == "d"]
        g.require(r2.status == 0 and names == ["d"] and deps and deps[0].endswith("e.task.%d" % new_ts), "select:dependent-sees-wrong-version",
                  "after the restore: spawned %s, COND_DEPS=%s; %s" % (names, deps, D))
        # --at-least c1/c2 is satisfied by the restored version (made at that commit or a later one)
        k3 = kernel()
        r3 = hrun.invoke(cli_run.main, hrun.run_ns(task_identifier="//:d", at_least=H(1)), str(proj.root), k3)
        g.require(r3.status == 0 and [p.name for p in k3.tasks()] == ["d"], "select:wrong-run-decision",
                  "after the restore --at-least c1 spawned %s (status %r); %s" % ([p.name for p in k3.tasks()], r3.status, D))
        g.goal("selection asked again after a restore")
        return {"nontrivial": True, "sample": {"case": D, "selected": got}}
    finally:
        proj.cleanup()
        src.cleanup()


def git_fault_fn(g):
    """A failing helper subprocess as a decision variable: chain c0 <- c1 <- c2 = HEAD, versions 10 at c0, 20 at c1 (the
    closest) and 30 at c0 (newer, farther); the k-th `git rev-list --count` of an invocation exits 128 (k = 0: none).  An
    invocation that fails because of it is accepted; exiting 0 with another version than the closest one is not."""
    import argparse
    import conductor.cli.where as cli_where
    import conductor.cli.run as cli_run
    k = g.choose("rev_list_fault_at", 4)
    cmd = ("where", "run")[g.choose("command", 2)]
    dag = Dag(g, 3)
    for (i, j), t in dag.p.items():
        g.assume(g.lift(t if (i, j) in ((1, 0), (2, 1)) else z3.Not(t)))
    proj = hrun.Project(config="")
    try:
        proj.write("COND", "run_experiment(name='e', run='true')\nrun_command(name='d', run='true', deps=[':e'])\n")
        for ts, c in ((10, 0), (20, 1), (30, 0)):
            proj.add_version("//:e", ts, commit=H(c))

        class Faulty(GitSched):
            n = 0
            fired = None

            def git(self, kernel, argv, cwd):
                if argv[:2] == ["rev-list", "--count"]:
                    self.n += 1
                    if self.n == k:
                        self.fired = " ".join(argv)
                        return "", 128
                return super().git(kernel, argv, cwd)
        sched = Faulty(g, "dag", dag, 2, False)
        kern = fakeos.Kernel(sched, clock=fakeos.Clock())
        if cmd == "where":
            r = hrun.invoke(cli_where.main, argparse.Namespace(task_identifier="//:e", project=False, non_existent_ok=False, debug=False), str(proj.root), kern)
            m_ = re.search(r"e\.task\.(\d+)\s*$", r.out)
            got = int(m_.group(1)) if (m_ and r.status == 0) else None
        else:
            r = hrun.invoke(cli_run.main, hrun.run_ns(task_identifier="//:d"), str(proj.root), kern)
            deps = [p.env.get("COND_DEPS", "") for p in kern.tasks() if p.name == "d"]
            m_ = re.search(r"e\.task\.(\d+)$", deps[0]) if deps else None
            got = int(m_.group(1)) if m_ else None
            if r.status == 0:
                g.require([p.name for p in kern.tasks()] == ["d"], "select:wrong-run-decision", "spawned %s" % [p.name for p in kern.tasks()])
        D = "versions 10@c0 20@c1 30@c0, HEAD=c2; cond %s; failing git call: %s" % (cmd, sched.fired)
        if sched.fired is None:
            g.require(r.status == 0, "select:run-failed", "status %r; %s" % (r.status, D))
        if r.status == 0:
            g.require(got == 20, "select:where-reports-wrong-version" if cmd == "where" else "select:dependent-sees-wrong-version",
                      "exit 0 with version %s, the closest ancestor version is 20; %s" % (got, D))
        if sched.fired:
            g.goal("git rev-list fails during selection")
        return {"nontrivial": bool(sched.fired), "sample": {"case": D, "status": r.status, "selected": got}}
    finally:
        proj.cleanup()


def legacy_fn(g):
    """An index still in the on-disk format of Conductor <= 0.4.0 (format 1: a commit column that was never reliable). The
    upgrade records its versions without a commit, so they are reused as commit-less versions: the newest one."""
    import argparse
    import sqlite3
    import conductor.cli.where as cli_where
    import conductor.cli.run as cli_run
    commit = ("unknown", "f" * 40, H(0), H(1))[g.choose("commit_text_in_the_old_row", 4)]
    mode = ("dag", "no-repo")[g.choose("gitmode", 2)]
    dag = Dag(g, 2)
    proj = hrun.Project(config="")
    try:
        proj.write("COND", "run_experiment(name='e', run='true')\nrun_command(name='d', run='true', deps=[':e'])\n")
        proj.out.mkdir()
        conn = sqlite3.connect(str(proj.out / "version_index.sqlite"))
        conn.execute("CREATE TABLE version_index (task_identifier TEXT NOT NULL, timestamp INTEGER NOT NULL, git_commit TEXT NOT NULL, "
                     "PRIMARY KEY (task_identifier, timestamp))")
        conn.execute("PRAGMA user_version = 1")
        for ts in (10, 12):
            conn.execute("INSERT INTO version_index VALUES (?, ?, ?)", ("//:e", ts, commit))
            (proj.out / ("e.task.%d" % ts)).mkdir()
            (proj.out / ("e.task.%d" % ts) / "result.txt").write_text("old")
        conn.commit()
        conn.close()
        D = "format-1 index with //:e versions 10 and 12, commit column %r; git: %s, HEAD=c0" % (commit[:8], mode)
        first = g.choose("first_command", 2)
        for step in ((0, 1) if first == 0 else (1, 0)):
            kern = fakeos.Kernel(GitSched(g, mode, dag, 0, False), clock=fakeos.Clock())
            if step == 0:
                r = hrun.invoke(cli_where.main, argparse.Namespace(task_identifier="//:e", project=False, non_existent_ok=False, debug=False), str(proj.root), kern)
                if isinstance(r.status, str):
                    g.require(False, "select:crash:" + r.status[4:], "%s; %s" % (r.exc, D))
                m_ = re.search(r"e\.task\.(\d+)\s*$", r.out)
                got = int(m_.group(1)) if (m_ and r.status == 0) else None
                g.require(got == 12, "select:where-reports-wrong-version", "cond where selects %s (status %r), expected the newest commit-less version 12; %s" % (got, r.status, D))
            else:
                r = hrun.invoke(cli_run.main, hrun.run_ns(task_identifier="//:d"), str(proj.root), kern)
                if isinstance(r.status, str):
                    g.require(False, "select:crash:" + r.status[4:], "%s; %s" % (r.exc, D))
                names = [p.name for p in kern.tasks()]
                deps = [p.env.get("COND_DEPS", "") for p in kern.tasks() if p.name == "d"]
                g.require(r.status == 0 and names == ["d"] and deps[0].endswith("e.task.12"), "select:wrong-run-decision",
                          "cond run //:d spawned %s with COND_DEPS=%s; %s" % (names, deps, D))
        g.goal("index upgraded from format 1")
        return {"nontrivial": True, "sample": {"case": D}}
    finally:
        proj.cleanup()


def bulk_fn(g):
    """More versions than any batch size: the closest one may be the 65th record."""
    import argparse
    import conductor.cli.where as cli_where
    pos = (0, 63, 64, 69)[g.choose("position_of_the_version_at_HEAD", 4)]
    old_is_ancestor = g.flag("others_at_an_ancestor")          # else: at an unrelated (unknown) commit
    proj = hrun.Project(config="")
    try:
        proj.write("COND", "run_experiment(name='e', run='true')\n")
        for i in range(70):
            commit = H(1) if i == pos else (H(0) if old_is_ancestor else "f" * 40)
            proj.add_version("//:e", 100 + i, commit=commit, files={"x": b"1"})
        dag = Dag(g, 2)
        sched = GitSched(g, "dag", dag, 1, False)
        res = hrun.invoke(cli_where.main, argparse.Namespace(task_identifier="//:e", project=False, non_existent_ok=False, debug=False),
                          str(proj.root), fakeos.Kernel(sched, clock=fakeos.Clock()), timeout=120)
        D = "70 versions, the one made at HEAD is record #%d, the others at %s" % (pos + 1, "the parent commit" if old_is_ancestor else "an unknown commit")
        if isinstance(res.status, str):
            g.require(False, "select:crash:" + res.status[4:], "%s; %s" % (res.exc, D))
        m_ = re.search(r"e\.task\.(\d+)\s*$", res.out)
        got = int(m_.group(1)) if (m_ and res.status == 0) else None
        g.require(got == 100 + pos, "select:where-reports-wrong-version", "cond where selected version %s, the closest one is %d; %s" % (got, 100 + pos, D))
        g.goal("more than 64 recorded versions of one task")
        return {"nontrivial": True, "sample": {"case": D, "selected": got}}
    finally:
        proj.cleanup()


def spaces(tier):
    goals = ["git in use and a recorded version carries a known commit", "two ancestor versions compared by distance",
             "--at-least/--this-commit satisfied by a cached version", "flag combination rejected"]
    sp = [Space("m3-k2", make(3, 2), "<=3 commits (symbolic parents incl. merges), HEAD anywhere, dirty bit, <=2 recorded versions "
                "(distinct timestamps; commit NULL | any commit | unknown hash), git modes {no repo, disabled, no commits, DAG}, "
                "flags {none, --again, --this-commit, --at-least C, both, again+commit}", depth=6, goals=goals,
                outside=["M>4", "K>3", "grafts/shallow clones"])]
    sp.append(Space("m3-k1-atleast-annotated-tags", make(3, 1, flags=("at-least",), modes=("dag",), tags=True, known_commits_only=True),
                    "M<=3 commits, one recorded version at a known commit, --at-least given as a commit hash or as an ANNOTATED TAG on any "
                    "commit (rev-parse yields the tag object's id unless peeled; merge-base and rev-list peel)", depth=12,
                    goals=["--at-least names an annotated tag on the cached version's commit"]))
    sp.append(Space("m2-k2-combine-dependent", make(2, 2, flags=("none", "this-commit"), modes=("dag", "no-repo"), dependent="k"),
                    "<=2 commits (related or not), <=2 recorded versions, as m3-k2 with the dependent being a combine task: the entry it exposes resolves to the selected version", depth=14,
                    goals=["git in use and a recorded version carries a known commit"]))
    sp.append(Space("m4-k1-atleast", make(4, 1, flags=("at-least",), modes=("dag",)),
                    "exactly 4 commits (symbolic parents: forks and merges, so that a version's commit and C can be unrelated "
                    "ancestors of HEAD), HEAD anywhere, <=1 recorded version, --at-least C for every C", depth=7,
                    preset={"M": 3, "dirty": False}, goals=["--at-least with a commit unrelated to the cached version's"]))
    sp.append(Space("line3-k3-orders", make(3, 3, flags=("none", "this-commit"), modes=("dag",), known_commits_only=True),
                    "a linear history of 3 commits, HEAD anywhere, exactly 3 recorded versions made at any of the commits, every order of "
                    "recording (timestamps are a permutation)", depth=8,
                    preset={"M": 2, "par1_0": True, "par2_1": True, "par2_0": False, "K": 3, "dirty": False}))
    sp.append(Space("select-restore-select", history_fn, "chain c0 <- c1 <- c2 = HEAD, version at c0 recorded; {where, cached run, nothing}; restore of an "
                    "archive with a version made at HEAD or at c1; where / run / run --at-least c1 again", depth=8,
                    goals=["selection asked again after a restore"]))
    sp.append(Space("git-rev-list-fails", git_fault_fn, "chain of 3 commits, versions at c0, c1 (closest) and a newer one at c0; cond where / cond run of a dependent; "
                    "the k-th `git rev-list --count` of the invocation exits 128 (k <= 3, a decision variable): the command fails or still selects the "
                    "closest version", depth=3, goals=["git rev-list fails during selection"],
                    outside=["failures of other git sub-commands (merge-base's 128 is read as 'not an ancestor' by design)", "unusual git output"]))
    sp.append(Space("format-1-index", legacy_fn, "an index in format 1 (two versions; commit column 'unknown' / an unknown hash / c0 / c1), git in use or "
                    "not, where and run in either order", depth=5, goals=["index upgraded from format 1"]))
    sp.append(Space("bulk-70-versions", bulk_fn, "70 recorded versions: 69 made at an older commit and one at HEAD, the one at HEAD recorded "
                    "first / 64th / 65th / last", depth=3, goals=["more than 64 recorded versions of one task"]))
    if tier == "thorough":
        sp.append(Space("m4-k3", make(4, 3, flags=("none", "this-commit", "at-least"), modes=("dag",)),
                        "<=4 commits incl. merges, <=3 recorded versions, flags {none, --this-commit, --at-least C}", depth=7,
                        tiers=("thorough",)))
    return sp


def lemmas(tier):
    return [Lemma("fake-git-vs-real-git", lemma_git_conformance(3 if tier == "quick" else 4),
                  "every DAG over %d commits: ancestry and rev-list counts of the emulator's terms vs /usr/bin/git through conductor.utils.git" % (3 if tier == "quick" else 4))]


def canaries(tier):
    def swap(raw):
        def is_ancestor(self, commit_hash, candidate_ancestor_hash):
            return raw(self, candidate_ancestor_hash, commit_hash)
        return is_ancestor
    P = {"gitmode": 3}
    return [
        Canary("is-ancestor-arguments-swapped", lambda: setattr_patch("conductor.utils.git", "Git.is_ancestor", swap), preset=P),
        Canary("farthest-instead-of-closest",
               lambda: rewrite("conductor.task_types.run", "RunExperiment._retrieve_most_relevant_existing_version",
                               "selected_version is None or dist < closest_distance", "selected_version is None or dist > closest_distance"),
               preset=dict(P, M=2, K=2, flag=0), max_paths=4000),
        Canary("tie-break-prefers-older",
               lambda: rewrite("conductor.task_types.run", "RunExperiment._retrieve_most_relevant_existing_version",
                               "and v.timestamp > selected_version.timestamp", "and v.timestamp < selected_version.timestamp"),
               preset=dict(P, M=2, K=2, flag=0), max_paths=4000),
    ]
