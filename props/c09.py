"""C09 - runs always terminate with every planned task accounted for.

Adversarial kernel: at every kernel-call boundary (fork/exec entry and return,
every waitpid, every read) the schedule - solver variables - decides whether a
running child has already turned zombie and whether the pending SIGCHLD is
delivered now or later; one delivery may stand for several exits; an unrelated
child may exist.  The real SigchldHelper, executor *and CPython's real
subprocess.Popen (__init__/__del__/_internal_poll/_cleanup)* run on top.
"""
import re

from vlib import graphs, hrun, fakeos
from vlib.runner import Space, Canary, rewrite

ID = "C09"
LEVEL = "model_checking"
SOLVER_SHARE = "low"
RULE = ("one case = one feasible path (graph, par bits, jobs, which child fails, and a schedule with at most B "
        "deviations from eager delivery: early exit at a kernel-call boundary / deferred SIGCHLD / batched exits); "
        "non-trivial = the schedule contains at least one deviation")
TRUSTED = ["z3", "fake kernel contract (DESIGN 4): Python-level handler runs at kernel-call boundaries of the main thread, "
           "never inside another handler; blocked read is retried after the handler (PEP 475)", "CPython subprocess (executed)"]
ASSUMPTIONS = ["pids are never reused", "signals are not delivered between two bytecodes inside library code",
               "exit statuses are concrete and distinct per child (0 or 10+i) so that misattribution is visible"]

CODE_RE = re.compile(r"Task '(\S+)' terminated with a non-zero error code \((\d+)\)")


class AdvSched(fakeos.Sched):
    def __init__(self, g, budget, unrelated=False):
        self.g = g
        self.budget = budget
        self.used = 0
        self.n = 0
        self.m = 0
        self.k = 0
        self.rc = {}
        self.unrelated = unrelated
        self.ns = 0
        self.job_control = False

    def on_spawn(self, kernel, proc):
        hrun.snapshot_on_spawn(kernel, proc)

    def _spend(self):
        self.used += 1

    def exits_now(self, kernel, point, running):
        if self.used >= self.budget:
            return []
        self.n += 1
        if not self.g.flag("ex%d" % self.n):
            return []
        self._spend()
        if len(running) == 1:
            return [running[0]]
        return [running[self.g.choose("exw%d" % self.n, len(running))]]

    def stops_now(self, kernel, point, running):
        if self.used >= self.budget or not self.job_control:
            return []
        self.ns += 1
        if not self.g.flag("st%d" % self.ns):
            return []
        self._spend()
        if len(running) == 1:
            return [running[0]]
        return [running[self.g.choose("stw%d" % self.ns, len(running))]]

    def deliver_now(self, kernel, point):
        if self.used >= self.budget:
            return True
        self.m += 1
        if self.g.flag("df%d" % self.m):
            self._spend()
            return False
        return True

    def pick_exit(self, kernel, running):
        if len(running) == 1:
            return running[0]
        self.k += 1
        return running[self.g.choose("x%d" % self.k, len(running))]

    def status_for(self, kernel, proc):
        bad = self.g.flag("bad%d" % proc.vpid)
        rc = (10 + proc.vpid - kernel.FIRST_PID) if bad else 0
        if proc.name is None:
            rc = 7 if bad else 0
        self.rc[proc.pid] = rc
        return rc << 8


def make(n, jobs_hi, budget, kinds=("run_command",), unrelated=False, orders="rev", line_level=False, job_control=False):
    def fn(g):
        specs = graphs.sym_graph(g, n, kinds, orders=orders)
        root = n - 1
        jobs = g.choose("jobs", jobs_hi) + 1
        sched = AdvSched(g, budget)
        sched.job_control = job_control
        hook = None
        if line_level:
            # every executed line of utils/sigchld.py and of the executor's wait loop is a preemption point too
            import sys as _sys
            import conductor.utils.sigchld as _sc
            import conductor.execution.executor as _ex
            files = {_sc.__file__, _ex.__file__}
            holder = {}

            def local(frame, event, arg):
                k_ = holder.get("kernel")
                if event == "line" and k_ is not None and k_.installed and not k_.in_handler:
                    if frame.f_code.co_filename == _sc.__file__ or frame.f_code.co_name in ("wait_for_next_op", "_wait_for_next_inflight_op"):
                        k_._point("line")
                return local

            def glob(frame, event, arg):
                return local if frame.f_code.co_filename in files else None
            import conductor.cli.run as _cli
            from vlib import fakeos as _fk
            orig_init = _fk.Kernel.__enter__

            def enter(self_):
                holder["kernel"] = self_
                return orig_init(self_)
            _fk.Kernel.__enter__ = enter
            old_trace = _sys.gettrace()
            _sys.settrace(glob)
            try:
                res = graphs.run_graph(g, specs, root, again=True, jobs=jobs, sched=sched, adversarial=True,
                                       unrelated=1 if unrelated else 0)
            finally:
                _sys.settrace(old_trace)
                _fk.Kernel.__enter__ = orig_init
        else:
            res = graphs.run_graph(g, specs, root, again=True, jobs=jobs, sched=sched, adversarial=True,
                                   unrelated=1 if unrelated else 0)
        try:
            D = graphs.describe(specs) + ["jobs=%d" % jobs]
            k = res.kernel
            ev = [e[:5] for e in k.events if e[0] in ("spawn", "exit", "reap", "deadlock")]
            if res.status == "deadlock" and "just before the call" in str(res.exc):
                g.require(False, "sigchld:signal-just-before-blocking-read",
                          "cond run blocks forever in SigchldHelper.wait(): the last child's SIGCHLD arrived after the interpreter's "
                          "last signal check and before read() was entered, so read() is not interrupted and the Python-level handler "
                          "never runs; events %s; %s" % (ev, D))
            g.require(res.status != "deadlock", "sigchld:lost-exit-deadlock",
                      "cond run blocks forever: a child's exit was reaped by someone else than the SIGCHLD handler "
                      "(reaps: %s); events %s; %s" % ([(e[2], e[4]) for e in k.events if e[0] == "reap"], ev, D))
            graphs.crash_check(g, res, specs)
            need = graphs.reachable(specs, root)
            info = hrun.parse_run_output(res)
            ii = graphs.ident_index(specs)
            outcome = {}
            for kind, lst in (("completed", info["completed"]), ("failed", info["failed_marks"]), ("skipped", info["skipping"])):
                for _, ident in lst:
                    outcome.setdefault(ii[ident], []).append(kind)
            for j in need:
                g.require(len(outcome.get(j, [])) == 1, "account:task-without-exactly-one-outcome",
                          "%s has outcomes %s; %s; events %s" % (specs[j].ident, outcome.get(j), D, ev))
            # attribution
            idx = {s.name: j for j, s in enumerate(specs)}
            codes = {ii[m.group(1)]: int(m.group(2)) for m in CODE_RE.finditer(res.out + res.err)}
            for p in k.tasks():
                j = idx[p.name]
                rc = sched.rc.get(p.pid)
                g.require(p.state != "run", "account:child-left-running", "%s; %s" % (p, D))
                if rc == 0:
                    g.require(outcome.get(j) == ["completed"], "account:wrong-outcome",
                              "%s exited 0 but is reported %s; %s; events %s" % (p.name, outcome.get(j), D, ev))
                else:
                    g.require(outcome.get(j) == ["failed"] and codes.get(j) == rc, "account:wrong-outcome",
                              "%s exited %s but is reported %s with code %s; %s; events %s" % (p.name, rc, outcome.get(j), codes.get(j), D, ev))
            g.require((res.status == 0) == all(v == 0 for p_, v in sched.rc.items() if k.procs[p_].name is not None), "account:exit-status",
                      "status %r, child codes %s" % (res.status, sched.rc))
            reaps_main = [e for e in k.events if e[0] == "reap" and e[4] == "main" and e[3] is not None]
            g.require(not reaps_main, "sigchld:task-child-reaped-outside-handler",
                      "task child reaped by the main flow (Popen.__del__/_cleanup) instead of the SIGCHLD handler: %s" % reaps_main)
            if sched.used:
                g.goal("schedule deviates from eager delivery")
            if any(e[0] == "exit" and e[3] is None for e in k.events):
                g.goal("unrelated child exits during the run")
            if any(e[0] == "stop" for e in k.events):
                g.goal("a task is stopped and continued")
            if any(e[0] == "exit" for e in k.events) and sched.used and any(
                    k.events[i][0] == "exit" and k.events[i + 1][0] == "exit" for i in range(len(k.events) - 1)):
                g.goal("two exits before one delivery")
            return {"nontrivial": sched.used > 0, "sample": {"tasks": D, "events": ev[:16], "status": res.status}}
        finally:
            res.proj.cleanup()
    return fn


class BatchAll(fakeos.Sched):
    """All running children exit together: one SIGCHLD stands for all of them."""

    def __init__(self, bad):
        self.bad = bad
        self.rc = {}

    def on_spawn(self, kernel, proc):
        hrun.snapshot_on_spawn(kernel, proc)

    def exits_now(self, kernel, point, running):
        return list(running) if point == "read_batch" else []

    def pick_exit(self, kernel, running):
        return running[0]

    def status_for(self, kernel, proc):
        rc = 10 + (proc.vpid - kernel.FIRST_PID) % 200 if proc.name == self.bad else 0
        self.rc[proc.pid] = rc
        return rc << 8


def scale_fn(g):
    """Many children in flight at once, all of them exiting before the one SIGCHLD is handled."""
    from vlib.hrun import TaskSpec
    import conductor.cli.run as cli_run
    w = (7, 9, 12, 40)[g.choose("width", 4)]
    jobs = (w, 64)[g.choose("jobs", 2)]
    badi = g.choose("failing_leaf", 3)
    leaves = [TaskSpec("l%02d" % i, "run_command", [], par=True) for i in range(w)]
    bad = (None, "l00", "l%02d" % (w - 1))[badi]
    specs = leaves + [TaskSpec("root", "group", [l.ident for l in leaves])]
    proj = hrun.Project()
    try:
        proj.write_tasks(specs)
        sched = BatchAll(bad)
        kern = fakeos.Kernel(sched, adversarial=True)
        res = hrun.invoke(cli_run.main, hrun.run_ns(task_identifier="//:root", jobs=jobs), str(proj.root), kern, timeout=120)
        D = "%d parallel commands under a group, --jobs %d, all exit within one SIGCHLD, failing=%s" % (w, jobs, bad)
        g.require(res.status != "deadlock", "sigchld:lost-exit-deadlock", "cond run blocks forever with %d exited children unreported; %s; %s" % (
            sum(1 for p_ in kern.tasks() if p_.state == "zombie"), res.exc, D))
        if isinstance(res.status, str):
            g.require(False, "run:crash:" + res.status, "%s; %s" % (res.exc, D))
        info = hrun.parse_run_output(res)
        done = sorted(x for _, x in info["completed"])
        failed = sorted(x for _, x in info["failed_marks"])
        g.require(len(kern.tasks()) == w, "account:spawn-count", "%d children for %d leaves; %s" % (len(kern.tasks()), w, D))
        g.require(all(p_.state != "run" for p_ in kern.tasks()), "account:child-left-running", D)
        exp_failed = ["//:" + bad] if bad else []
        exp_done = sorted(l.ident for l in leaves if l.name != bad) + ([] if bad else ["//:root"])
        g.require(failed == exp_failed and done == exp_done, "account:task-without-exactly-one-outcome",
                  "completed %d (expected %d), failed %s (expected %s); %s" % (len(done), len(exp_done), failed, exp_failed, D))
        codes = {m.group(1): int(m.group(2)) for m in CODE_RE.finditer(res.out + res.err)}
        if bad:
            g.require(codes == {"//:" + bad: [v for v in sched.rc.values() if v][0]}, "account:wrong-outcome", "codes %s; %s" % (codes, D))
        g.require((res.status == 0) == (bad is None), "account:exit-status", "status %r; %s" % (res.status, D))
        conc = max(sum(1 for p_ in kern.tasks() if p_.t_spawn <= q.t_spawn and (p_.t_exit is None or p_.t_exit > q.t_spawn)) for q in kern.tasks())
        if conc >= 7:
            g.goal("seven or more children in flight at once")
        return {"nontrivial": True, "sample": {"case": D, "max_in_flight": conc}}
    finally:
        proj.cleanup()


def spaces(tier):
    sp = [Space("n2-j2-b2", make(2, 2, 2, kinds=("run_command", "run_experiment")),
                "N<=2, kinds {run_command, run_experiment}, par bits, jobs 1..2, each child exits 0 or with a distinct "
                "code, schedules with <=2 deviations (early exit at any kernel-call boundary, deferred SIGCHLD, batched exits)",
                depth=7, goals=["schedule deviates from eager delivery"]),
          Space("n3-j2-b1", make(3, 2, 1),
                "N=3 run_command tasks, every edge set, par bits, jobs 1..2, <=1 schedule deviation", depth=8,
                goals=["schedule deviates from eager delivery"], outside=["N>3", ">2 deviations", "pid reuse"])]
    sp.append(Space("n2-unrelated-child-b2", make(2, 2, 2, unrelated=True),
                    "N<=2 run_command tasks plus one child of cond that is not a task (exits 0 or 7 at any point), jobs 1..2, <=2 deviations",
                    depth=7, goals=["unrelated child exits during the run"]))
    sp.append(Space("n2-job-control-b1", make(2, 2, 1, job_control=True),
                    "N<=2 run_command tasks, jobs 1..2, one deviation which may be: a running task is stopped (SIGSTOP) and later "
                    "continued - the parent receives SIGCHLD for both - at any kernel-call boundary", depth=7,
                    goals=["a task is stopped and continued"]))
    sp.append(Space("scale-many-children-one-sigchld", scale_fn,
                    "{7, 9, 12, 40} parallel commands under one group, --jobs {width, 64}: all of them in flight at once and all exiting "
                    "before the single SIGCHLD is handled; none / the first / the last one fails", depth=4,
                    goals=["seven or more children in flight at once"]))
    if tier == "thorough":
        sp.append(Space("n3-j3-b2", make(3, 3, 2),
                        "N=3 run_command tasks, jobs 1..3, <=2 schedule deviations", depth=9, tiers=("thorough",),
                        goals=["two exits before one delivery"]))
        sp.append(Space("n3-j2-b3-par", make(3, 2, 3),
                        "N=3, jobs 1..2, <=3 deviations", depth=9, tiers=("thorough",)))
        sp.append(Space("n2-line-level-b2", make(2, 2, 2, line_level=True),
                        "N<=2, jobs 1..2, <=2 deviations; additionally every executed line of utils/sigchld.py and of the executor's "
                        "wait functions is a point where a child may have exited / the pending SIGCHLD is delivered", depth=8,
                        tiers=("thorough",)))
    return sp


def lemma_conformance():
    """Environment-model validation: the same small projects are run once over the fake kernel (children scripted with
    the statuses the real commands produce) and once with real /bin/bash children through the real OS; what cond prints
    and returns must agree.  A disagreement means a stub is wrong: inconclusive, never a violation."""
    import signal as _sig
    from vlib.hrun import TaskSpec
    from vlib import fakeos as fk
    out = {"obligations": 0, "discharged": 0, "queries": 0, "solver_s": 0.0, "violations": [], "samples": [], "inconclusive": []}
    scenarios = [
        ("chain ok", [("a", "true", [], False), ("b", "true", [":a"], False)], {}, 1),
        ("exit 3 skips dependent", [("a", "exit 3", [], False), ("b", "true", [":a"], False), ("c", "true", [], False), ("all", None, [":b", ":c"], False)], {"a": 3 << 8}, 1),
        ("killed by SIGKILL", [("a", "kill -9 $$", [], False), ("b", "true", [":a"], False)], {"a": 9}, 1),
        ("parallel pair", [("a", "true", [], True), ("b", "sleep 0.05", [], True), ("c", "true", [":a", ":b"], False)], {}, 2),
        ("parallel failure", [("a", "exit 7", [], True), ("b", "true", [], True), ("all", None, [":a", ":b"], False)], {"a": 7 << 8}, 2),
    ]
    import conductor.cli.run as cli_run
    for label, tasks, statuses, jobs in scenarios:
        specs = [TaskSpec(n, "group" if cmd is None else "run_command", deps, par=par, run=cmd or "true") for n, cmd, deps, par in tasks]
        root = specs[-1].ident
        views = []
        for real in (False, True):
            proj = hrun.Project()
            try:
                proj.write_tasks(specs)
                if real:
                    res = hrun.invoke(cli_run.main, hrun.run_ns(task_identifier=root, jobs=jobs), str(proj.root), None)
                else:
                    class S(fk.Sched):
                        def status_for(self, kernel, proc):
                            return statuses.get(proc.name, 0)
                    res = hrun.invoke(cli_run.main, hrun.run_ns(task_identifier=root, jobs=jobs), str(proj.root), fk.Kernel(S(), clock=fk.Clock()))
                info = hrun.parse_run_output(res)
                views.append({"status": res.status, "completed": sorted(x for _, x in info["completed"]), "failed": sorted(info["failed_list"]),
                              "skipped": sorted(info["skipped_list"]), "codes": sorted(CODE_RE.findall(res.out + res.err))})
            finally:
                proj.cleanup()
        out["obligations"] += 1
        if views[0] == views[1]:
            out["discharged"] += 1
        else:
            out["inconclusive"].append("fake kernel and real OS disagree on %r: fake %s, real %s" % (label, views[0], views[1]))
        out["samples"].append({"scenario": label, "fake_kernel": views[0], "real_os": views[1]})
    return out


def lemmas(tier):
    from vlib.runner import Lemma
    return [Lemma("fake-kernel-vs-real-processes", lemma_conformance,
                  "5 small projects (chain, failing exit status, SIGKILL, parallel pair, parallel failure) run over the fake kernel and "
                  "with real bash children; outcomes, reported exit codes and cond's exit status must agree")]


def canaries(tier):
    return [
        Canary("handler-reaps-one-child-per-signal",
               lambda: rewrite("conductor.utils.sigchld", "SigchldHelper._handler",
                               "SigchldHelper.instance()._add_returncode(pid, returncode)\n",
                               "SigchldHelper.instance()._add_returncode(pid, returncode)\n            break\n"),
               space="n3-j2-b1",
               preset={"e0_1": False, "e0_2": True, "e1_2": True, "p0": True, "p1": True, "p2": True, "jobs": 1}),
    ]
