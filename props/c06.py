"""C06 - only successful runs become versions; the index never outlives its data.

(1) `cond run` of an experiment in-process with a symbolic exit status (or
signal), args/options empty or not, git {absent, clean, dirty}: a row exists
only for an execution that exited 0, with HEAD's hash and dirty bit, and its
directory holds the finished output and the args/options records.
(2) the same command - and archive / gc / a second run after it - in a forked
child that is killed at the k-th executed line (k a solver variable over every
line of the anchored modules, measured per configuration): every row visible
to a fresh connection still has its complete directory.
"""
import json
import os
import shutil
import tempfile

from vlib import crash, fakeos, graphs, hrun
from vlib.fakeos import StatusExited, StatusSignaled
from vlib.hrun import TaskSpec
from vlib.symx import Inconclusive
from vlib.runner import Space, Canary, rewrite

ID = "C06"
LEVEL = "fault_enumeration"
SOLVER_SHARE = "medium"
RULE = ("one case = (args/options empty or not, git mode, outcome: symbolic exit status / signal | fixed outcome + kill "
        "point k, command sequence); non-trivial = the run is killed or fails after the child has written output")
TRUSTED = ["sqlite's atomic commit (fresh connection after the kill sees exactly the committed rows)", "fake kernel contract (DESIGN 4)",
           "kill = process death (os._exit); power loss / missing fsync are outside the claim"]
ASSUMPTIONS = ["the task writes result.txt and one line on stdout, then exits", "line granularity of kill points; tee threads die with the process"]

HASH = "cd" * 20
ARGS = ([], [1, "two", 2.5, True], list(range(300)) + ["x" * 5000])
OPTS = ({}, {"k": "v", "n": 3}, {"key%03d" % i: i * 0.5 for i in range(200)})
GIT = ("none", "clean", "dirty")
ANCHORED = ("execution/ops/run_task_executable.py", "execution/version_index.py", "utils/run_arguments.py", "utils/run_options.py",
            "utils/output_handler.py", "cli/restore.py", "cli/archive.py", "cli/gc.py")
_L = {}


class Sch(fakeos.Sched):
    def __init__(self, status_fn, git):
        self.status_fn, self.gitmode = status_fn, git
        self.status = {}

    def on_spawn(self, kernel, proc):
        hrun.snapshot_on_spawn(kernel, proc)
        out = proc.env.get("COND_OUT")
        base = os.path.basename(out)
        with open(os.path.join(out, "result.txt"), "w") as fh:
            fh.write("result of " + base)
        kernel.child_write(proc, "out", ("stdout of %s\n" % base).encode())
        kernel.child_write(proc, "err", ("stderr of %s\n" % base).encode())

    def status_for(self, kernel, proc):
        st = self.status_fn(proc)
        self.status[os.path.basename(proc.env["COND_OUT"])] = st
        return st

    def git(self, kernel, argv, cwd):
        if self.gitmode == "none":
            return "", 128
        if argv[:2] == ["rev-parse", "--git-dir"]:
            return ".git\n", 0
        if argv[:2] == ["rev-parse", "HEAD"]:
            return HASH + "\n", 0
        if argv[:2] == ["diff-index", "--quiet"]:
            return "", (1 if self.gitmode == "dirty" else 0)
        return "", 128


def project(args, opts, git):
    proj = hrun.Project(config="" if git != "none" else "disable_git = true\n")
    proj.write_tasks([TaskSpec("e", "run_experiment", [], run="./exp.sh", args=args or None, options=opts or None)])
    return proj


def check_rows(g, proj, args, opts, D, ok_fn=None, git=None):
    """Invariant (b) - and (a) when ok_fn is given - for every row a fresh connection sees."""
    for ident, ts, commit, dirty in proj.index_rows():
        base = "e.task.%d" % ts
        d = proj.out / base
        g.require(d.is_dir(), "index:row-without-directory", "%s recorded but %s is missing; %s" % (ts, base, D))
        res = (d / "result.txt")
        g.require(res.is_file() and res.read_text() == "result of " + base, "index:row-without-finished-output",
                  "%s/result.txt missing or incomplete; %s" % (base, D))
        so = d / "stdout.log"
        se = d / "stderr.log"
        g.require(so.is_file() and so.read_bytes() == ("stdout of %s\n" % base).encode() and se.is_file()
                  and se.read_bytes() == ("stderr of %s\n" % base).encode(), "index:row-without-complete-logs",
                  "stdout.log/stderr.log of %s missing or incomplete (%r); %s" % (base, so.read_bytes() if so.is_file() else None, D))
        for fname, val in (("args.json", args), ("options.json", opts)):
            f = d / fname
            if val:
                try:
                    ok = f.is_file() and json.loads(f.read_text()) == val
                except ValueError:
                    ok = False
                g.require(ok, "index:row-without-%s" % fname, "%s/%s missing, truncated or wrong; %s" % (base, fname, D))
            else:
                g.require(not f.exists(), "index:unexpected-%s" % fname, "%s/%s exists although nothing was declared; %s" % (base, fname, D))
        if ok_fn is not None:
            g.require(ok_fn(base), "index:version-recorded-for-failed-run", "%s recorded although the execution did not exit 0; %s" % (base, D))
            want = (HASH if git != "none" else None, 1 if git == "dirty" else 0)
            g.require((commit, dirty) == want, "index:wrong-commit-or-dirty-flag", "row has %s, HEAD/dirty were %s; %s" % ((commit, dirty), want, D))


def symbolic_fn(g):
    import conductor.cli.run as cli_run
    args = ARGS[g.choose("args", 3)]
    opts = OPTS[g.choose("opts", 3)]
    git = GIT[g.choose("git", 3)]
    proj = project(args, opts, git)
    try:
        outcome = {}

        def status_fn(proc):
            if g.flag("sig"):
                s = g.fresh_int("signum", 1, 64)
                outcome["ok"] = False
                return StatusSignaled(s)
            rc = g.fresh_int("rc", 0, 255)
            outcome["rc"] = rc
            return StatusExited(rc)
        sched = Sch(status_fn, git)
        res = hrun.invoke(cli_run.main, hrun.run_ns(task_identifier="//:e"), str(proj.root), fakeos.Kernel(sched, clock=fakeos.Clock()))
        D = "args=%s options=%s git=%s outcome=%s" % (args, opts, git, outcome)
        if isinstance(res.status, str):
            g.require(False, "index:crash:" + res.status[4:], "%s; %s" % (res.exc, D))

        def ok_fn(base):
            if "rc" in outcome:
                return outcome["rc"] == 0
            return False
        check_rows(g, proj, args, opts, D, ok_fn, git)
        rows = proj.index_rows()
        if "rc" in outcome:
            # and a successful run IS recorded (otherwise caching could never work)
            g.require(g.lift(g.term(outcome["rc"] == 0) == z3_bool(len(rows) == 1)) if g.symbolic else ((outcome["rc"] == 0) == (len(rows) == 1)),
                      "index:successful-run-not-recorded", "rows=%s; %s" % (rows, D))
        if rows:
            g.goal("successful run recorded")
        else:
            g.goal("failed run not recorded")
        return {"nontrivial": not rows, "sample": {"case": D, "rows": rows, "status": res.status}}
    finally:
        proj.cleanup()


def several_fn(g):
    """Three experiments under one group in ONE invocation: one index connection, one transaction that later completions
    commit.  A row a fresh connection sees afterwards must belong to an execution that exited 0 - whatever finished before
    or after it - and every execution that exited 0 must have its row."""
    import conductor.cli.run as cli_run
    from vlib import graphs
    specs = [TaskSpec("e%d" % i, "run_experiment", [], par=g.flag("par%d" % i)) for i in range(3)]
    if g.flag("reversed_listing"):
        grp = TaskSpec("all", "group", [":e2", ":e1", ":e0"])
    else:
        grp = TaskSpec("all", "group", [":e0", ":e1", ":e2"])
    jobs = g.choose("jobs", 2) + 1
    stop_early = g.flag("stop_early")
    proj = hrun.Project()
    try:
        proj.write_tasks(specs + [grp])
        sched = graphs.SymSched(g, signals=True, on_spawn=graphs.output_writer)
        kern = fakeos.Kernel(sched, clock=fakeos.Clock())
        res = hrun.invoke(cli_run.main, hrun.run_ns(task_identifier="//:all", jobs=jobs, stop_early=stop_early), str(proj.root), kern)
        D = "par=%s listing=%s jobs=%d stop_early=%s" % ([s.par for s in specs], grp.deps, jobs, stop_early)
        if isinstance(res.status, str):
            g.require(False, "index:crash:" + res.status[4:], "%s; %s" % (res.exc, D))
        byout = {os.path.basename(p.env["COND_OUT"]): p for p in kern.tasks()}
        rows = proj.index_rows()
        recorded = set()
        for ident, ts, commit, dirty in rows:
            base = "%s.task.%d" % (ident.split(":")[-1], ts)
            recorded.add(base)
            p = byout.get(base)
            g.require(p is not None, "index:row-for-unknown-execution", "%s; %s" % (base, D))
            g.require(bool(sched.ok(p.pid)), "index:version-recorded-for-failed-run",
                      "%s recorded although the execution did not exit 0 (outcomes %s, completion order %s); %s" % (
                          base, {q.name: sched.outcome.get(q.pid) for q in kern.tasks()}, [e[1] for e in kern.events if e[0] == "exit"][:4], D))
            g.require((proj.out / base).is_dir(), "index:row-without-directory", "%s; %s" % (base, D))
        nfail = 0
        for base, p in byout.items():
            if p.pid in sched.outcome and bool(sched.ok(p.pid)):
                g.require(base in recorded, "index:successful-run-not-recorded", "%s exited 0 but has no row; %s" % (base, D))
            else:
                nfail += 1
        if nfail and recorded:
            g.goal("a failed and a successful experiment in one invocation")
        return {"nontrivial": bool(nfail and recorded), "sample": {"case": D, "rows": sorted(recorded)}}
    finally:
        proj.cleanup()


def z3_bool(b):
    import z3
    return z3.BoolVal(bool(b))


SEQS = (("run-ok",), ("run-fail",), ("run-ok", "run-ok"), ("run-ok", "run-fail"), ("run-ok", "archive"), ("run-ok", "gc"),
        ("run-fail", "gc"), ("run-ok", "restore-self"))


def run_step(step, proj, args, opts, git, second):
    """One command of a sequence; returns its exit status."""
    if step.startswith("run"):
        fail = step == "run-fail"
        sched = Sch(lambda proc: StatusExited(3 if fail else 0), git)
        kern = fakeos.Kernel(sched, clock=fakeos.Clock(lambda i: 2000.0 + 10 * second))
        return hrun.invoke_argv(["run", "//:e", "--again"], str(proj.root), kern).status
    kern = fakeos.Kernel(Sch(lambda proc: StatusExited(0), git))
    if step == "archive":
        return hrun.invoke_argv(["archive", "-o", str(proj.root / "a.tar.gz")], str(proj.root), kern).status
    if step == "gc":
        return hrun.invoke_argv(["gc"], str(proj.root), kern).status
    if step == "restore-self":
        # archive, forget the version (clean), restore it
        hrun.invoke_argv(["archive", "-o", str(proj.root / "self.tar.gz")], str(proj.root), kern)
        shutil.rmtree(proj.out)
        return hrun.invoke_argv(["restore", str(proj.root / "self.tar.gz")], str(proj.root), fakeos.Kernel(Sch(lambda proc: StatusExited(0), git))).status
    raise ValueError(step)


def make_killed(only, seqs):
    def fn(g):
        args = ARGS[g.choose("args", 2)]
        opts = OPTS[g.choose("opts", 2)]
        git = GIT[g.choose("git", 3)] if len(seqs) <= 2 else "clean"
        seq = seqs[g.choose("seq", len(seqs))]
        cfg = (bool(args), bool(opts), git, seq, only)
        if cfg not in _L:
            p0 = project(args, opts, git)
            try:
                for i, st in enumerate(seq[:-1]):
                    run_step(st, p0, args, opts, git, i)
                r0 = crash.run_in_child(lambda: run_step(seq[-1], p0, args, opts, git, len(seq) - 1), None, only)
            finally:
                p0.cleanup()
            _L[cfg] = r0.get("lines", 0)
        L = _L[cfg]
        kb = g.choose("kb", (max(L, 1) + 31) // 32 + 1)        # one block beyond the measured count, see below
        g.shard_point()
        k = kb * 32 + g.choose("ko", 32)
        proj = project(args, opts, git)
        try:
            for i, st in enumerate(seq[:-1]):
                run_step(st, proj, args, opts, git, i)
            rows_before = proj.index_rows()
            out = crash.run_in_child(lambda: run_step(seq[-1], proj, args, opts, git, len(seq) - 1), k, only)
            D = "args=%s options=%s git=%s sequence=%s, last command killed at line event %d/%d (%s)" % (
                bool(args), bool(opts), git, list(seq), k, L, out.get("killed_at"))
            if "child_error" in out:
                g.require(False, "index:harness-child-error", "%s; %s" % (out["child_error"], D))
            if out.get("killed") and k >= L + 16:
                raise Inconclusive("line numbering is not stable: the run without a fault had %d line events, an identical run reached %d" % (L, k))
            check_rows(g, proj, args, opts, D)
            rows = proj.index_rows()
            if seq[-1] in ("archive", "gc"):
                g.require(rows == rows_before, "index:%s-changed-recorded-versions" % seq[-1], "before %s after %s; %s" % (rows_before, rows, D))
            if seq[-1] == "run-fail":
                g.require(rows == rows_before, "index:version-recorded-for-failed-run", "rows %s; %s" % (rows, D))
            if out.get("killed"):
                g.goal("command killed midway")
            if out.get("killed") and "finish_execution" in (out.get("killed_at") or ""):
                g.goal("killed while finishing a task")
            if out.get("killed") and "insert_output_version" in (out.get("killed_at") or "") or "commit_changes" in (out.get("killed_at") or ""):
                g.goal("killed around the index insertion")
            return {"nontrivial": bool(out.get("killed")), "sample": {"case": D, "rows": rows}}
        finally:
            proj.cleanup()
    return fn


def scale_fn_every(g):
    return scale_fn(g, stride=1)


def scale_fn(g, stride=23):
    """18 / 40 recorded versions are archived, forgotten and restored; the restore is killed at points spread over its run."""
    nver = (18, 40)[g.choose("versions", 2)]
    git = "clean"
    proj = project(None, None, git)
    try:
        for i in range(nver):
            base = "e.task.%d" % (500 + i)
            proj.add_version("//:e", 500 + i, commit=HASH, files={
                "result.txt": ("result of " + base).encode(), "stdout.log": ("stdout of %s\n" % base).encode(),
                "stderr.log": ("stderr of %s\n" % base).encode()})
        arch = str(proj.root / "all.tar.gz")
        st = hrun.invoke_argv(["archive", "-o", arch], str(proj.root), fakeos.Kernel(Sch(lambda proc: StatusExited(0), git))).status
        g.require(st == 0, "index:harness-archive-failed", "archive of %d versions exited %r" % (nver, st))
        shutil.rmtree(proj.out)
        only = ("cli/restore.py", "execution/version_index.py")
        step = lambda: hrun.invoke_argv(["restore", arch], str(proj.root), fakeos.Kernel(Sch(lambda proc: StatusExited(0), git))).status
        cfg = ("scale", nver)
        if cfg not in _L:
            p0 = project(None, None, git)
            try:
                r0 = crash.run_in_child(lambda: hrun.invoke_argv(["restore", arch], str(p0.root), fakeos.Kernel(Sch(lambda proc: StatusExited(0), git))).status, None, only)
            finally:
                p0.cleanup()
            _L[cfg] = r0.get("lines", 0)
        L = _L[cfg]
        k = stride * (1 + g.choose("kill_block", max(1, L // stride)))        # every 23rd executed line (thorough: every line)
        out = crash.run_in_child(step, k, only)
        D = "%d recorded versions archived, cond-out removed, restore killed at line event %d/%d (%s)" % (nver, k, L, out.get("killed_at"))
        if "child_error" in out:
            g.require(False, "index:harness-child-error", "%s; %s" % (out["child_error"], D))
        check_rows(g, proj, None, None, D)
        rows = proj.index_rows()
        g.require(len(rows) in (0, nver), "index:partially-restored-index", "%d of %d rows; %s" % (len(rows), nver, D))
        if out.get("killed"):
            g.goal("restore of many versions killed midway")
        return {"nontrivial": bool(out.get("killed")), "sample": {"case": D, "rows": len(rows)}}
    finally:
        proj.cleanup()


_WARM = [False]


def _warm():
    if _WARM[0]:
        return
    _WARM[0] = True
    old = hrun.SCRATCH_BASE
    d = tempfile.mkdtemp(prefix="verif-warm-", dir=old if os.path.isdir(old) else None)
    hrun.SCRATCH_BASE = d
    try:
        p = project(ARGS[1], OPTS[1], "clean")
        for st in ("run-ok", "archive", "gc", "restore-self"):
            run_step(st, p, ARGS[1], OPTS[1], "clean", 0)
        p.cleanup()
    finally:
        hrun.SCRATCH_BASE = old
        shutil.rmtree(d, ignore_errors=True)


def spaces(tier):
    _warm()
    sp = [Space("run-symbolic-outcome", symbolic_fn,
                "cond run of one experiment; args/options empty or not; git {absent, clean, dirty}; child exits with a symbolic status "
                "0..255 or dies from a symbolic signal 1..64", depth=4, goals=["successful run recorded", "failed run not recorded"]),
          Space("killed-anchored-lines", make_killed(ANCHORED, SEQS[:2] if tier == "quick" else SEQS),
                "sequences %s; the last command is killed at every executed line of %s" % (
                    [list(s) for s in (SEQS[:2] if tier == "quick" else SEQS)], list(ANCHORED)),
                depth="marker", goals=["command killed midway", "killed while finishing a task", "killed around the index insertion"],
                outside=["power loss", "kill inside sqlite's commit", "bytecode granularity"])]
    sp.append(Space("several-experiments-one-invocation", several_fn,
                    "three experiments under one group in one invocation (each parallelizable or not, both listing orders, --jobs 1..2, --stop-early or not); "
                    "exit status / fatal signal of every execution symbolic, completion order symbolic: rows seen by a fresh connection afterwards are "
                    "exactly the executions that exited 0", depth=12, goals=["a failed and a successful experiment in one invocation"],
                    outside=["more than three experiments per invocation", "jobs > 2"]))
    sp.append(Space("scale-restore-of-many-versions-killed", scale_fn,
                    "18 / 40 recorded versions archived, forgotten and restored; the restore is killed at every 23rd executed line of "
                    "cli/restore.py + execution/version_index.py", depth=2, goals=["restore of many versions killed midway"]))
    if tier == "thorough":
        sp.append(Space("killed-all-lines", make_killed(None, SEQS),
                        "every sequence, the last command killed at every executed line of conductor.*", depth="marker", tiers=("thorough",)))
        sp.append(Space("scale-restore-of-many-versions-killed-every-line", scale_fn_every,
                        "18 / 40 recorded versions archived, forgotten and restored; the restore is killed at every executed line of "
                        "cli/restore.py + execution/version_index.py", depth=2, tiers=("thorough",)))
    return sp


def canaries(tier):
    ins = ("    if self._version_to_record is not None:\n"
           "        ctx.version_index.insert_output_version(self._identifier, self._version_to_record)\n"
           "        ctx.version_index.commit_changes()\n"
           "        self._version_to_record = None\n")
    return [
        Canary("insert-before-return-code-check",
               lambda: rewrite("conductor.execution.ops.run_task_executable", "RunTaskExecutable.finish_execution",
                               "    assert handle.returncode is not None\n", "    assert handle.returncode is not None\n" + ins),
               space="run-symbolic-outcome"),
        Canary("insert-before-serialising-args",
               lambda: rewrite("conductor.execution.ops.run_task_executable", "RunTaskExecutable.finish_execution",
                               "    if self._serialize_args_options:\n", ins + "    if self._serialize_args_options:\n"),
               space="killed-anchored-lines", preset={"args": 1, "opts": 1, "git": 1, "seq": 0}, max_paths=1500),
    ]
