"""C15 - COND definitions: well-formed accepted, malformed rejected cleanly.

COND sources are generated from the documented constructors with parameter
values drawn from a typed pool (at most two simultaneous deviations from a
valid baseline), include() variants and COND bodies raising Python errors;
each goes through the real `cond run --check` (and `cond run`); the documented
schema, written independently as a predicate, is the oracle.
"""
import os
import re
import sys

from vlib import fakeos, graphs, hrun
from vlib.runner import Space, Canary, rewrite

ID = "C15"
LEVEL = "exploration"
SOLVER_SHARE = "low"
RULE = ("one case = (constructor, <=2 parameter deviations from a typed pool | include variant | raising body); "
        "non-trivial = the definition deviates from the valid baseline")
TRUSTED = ["schema predicate in props/c15.py (written from the documentation)", "fake kernel contract (DESIGN 4)"]
ASSUMPTIONS = ["BaseExceptions that are not Exceptions (SystemExit, KeyboardInterrupt) raised by user code are outside the claim"]

ABSENT = object()
IDENT = re.compile(r"[A-Za-z0-9_-]+\Z")
DEP = re.compile(r"(:[A-Za-z0-9_-]+|//([A-Za-z0-9_-]+/)*([A-Za-z0-9_-]+)?:[A-Za-z0-9_-]+)\Z")
PRIM = (str, bool, int, float)

POOL = ["ok-name", "bad name", "x\n", "na{me}", ["//:gen-{size}"], [":{0}"], "", 3, 2.5, True, None, ["s"], ["s", 3], [], {"k": 1}, {1: "v"}, {"k": [1]}, {}, ("t",),
        [":dep"], ["//:dep", ":dep2"], [":dep", "//:dep"], [":missing"], ["not an id"], [None], [[1]], {"k": None}]

SCHEMAS = {
    "run_command": {"name": True, "run": True, "parallelizable": False, "args": False, "options": False, "deps": False},
    "run_experiment": {"name": True, "run": True, "parallelizable": False, "args": False, "options": False, "deps": False},
    "group": {"name": True, "deps": False},
    "combine": {"name": True, "deps": False},
}
BASE = {"name": "x", "run": "./go.sh", "parallelizable": True, "args": [1, "a"], "options": {"k": 2.5}, "deps": [":dep"]}
DEFINED = {"dep", "dep2"}


def valid_param(param, v):
    if param == "name":
        return isinstance(v, str) and IDENT.match(v) is not None
    if param == "run":
        return isinstance(v, str)
    if param == "parallelizable":
        return isinstance(v, bool)
    if param == "args":
        return isinstance(v, list) and all(isinstance(a, PRIM) for a in v)
    if param == "options":
        return isinstance(v, dict) and all(isinstance(k, str) and isinstance(x, PRIM) for k, x in v.items())
    if param == "deps":
        if not isinstance(v, list) or not all(isinstance(d, str) for d in v):
            return False
        seen = set()
        for d in v:
            if DEP.match(d) is None:
                return False
            name = d.rsplit(":", 1)[1]
            path = d[2:].rsplit(":", 1)[0].strip("/") if d.startswith("//") else ""
            if (path, name) in seen or path != "" or name not in DEFINED:
                return False
            seen.add((path, name))
        return True
    return False


def schema_ok(ctor, kwargs, extra, positional, dup_name):
    if positional or extra or dup_name:
        return False
    sch = SCHEMAS[ctor]
    for p, required in sch.items():
        if p not in kwargs:
            if required:
                return False
            continue
        if not valid_param(p, kwargs[p]):
            return False
    if ctor == "combine" and "deps" in kwargs:
        names = [d.rsplit(":", 1)[1] for d in kwargs["deps"]]
        if len(set(names)) != len(names):
            return False
    return True


def render(ctor, kwargs, extra, positional, dup_name):
    if positional:
        call = "%s(%s)" % (ctor, ", ".join(repr(kwargs[p]) for p in SCHEMAS[ctor] if p in kwargs))
    else:
        items = ["%s=%r" % (p, kwargs[p]) for p in SCHEMAS[ctor] if p in kwargs]
        if extra:
            items.append("bogus=1")
        call = "%s(%s)" % (ctor, ", ".join(items))
    text = "run_command(name='dep', run='true')\nrun_command(name='dep2', run='true')\n" + call + "\n"
    if dup_name:
        text += "group(name=%r)\n" % (kwargs.get("name", "x"),)
    return text


INCLUDES = [
    # (label, COND text, extra files {rel: text or ('link', target)}, accepted?)
    ("valid include", "include('common.cond')\nrun_command(name='x', run=CMD)\n", {"common.cond": "CMD = 'true'\n"}, True),
    ("project-absolute include", "include('//lib/common.cond')\nrun_command(name='x', run=CMD)\n", {"lib/common.cond": "CMD = 'true'\n"}, True),
    ("include twice", "include('common.cond')\ninclude('common.cond')\nrun_command(name='x', run=CMD)\n", {"common.cond": "CMD = 'true'\n"}, True),
    ("missing file", "include('nothere.cond')\nrun_command(name='x', run='true')\n", {}, False),
    ("wrong extension", "include('common.py')\nrun_command(name='x', run='true')\n", {"common.py": "CMD = 'true'\n"}, False),
    ("outside the project via ..", "include('../outside.cond')\nrun_command(name='x', run='true')\n", {"../outside.cond": "CMD = 'true'\n"}, False),
    ("outside the project via symlink", "include('link.cond')\nrun_command(name='x', run='true')\n", {"../outside2.cond": "CMD = 'true'\n", "link.cond": ("link", "../outside2.cond")}, False),
    ("nested include", "include('a.cond')\nrun_command(name='x', run='true')\n", {"a.cond": "include('b.cond')\n", "b.cond": "Y = 1\n"}, False),
    ("included file defines a task", "include('a.cond')\nrun_command(name='x', run='true')\n", {"a.cond": "run_command(name='y', run='true')\n"}, False),
    ("included file raises", "include('a.cond')\nrun_command(name='x', run='true')\n", {"a.cond": "raise ValueError('boom')\n"}, False),
    ("included file has a syntax error", "include('a.cond')\nrun_command(name='x', run='true')\n", {"a.cond": "def (:\n"}, False),
    ("include with a non-string", "include(3)\nrun_command(name='x', run='true')\n", {}, False),
    ("sibling directory whose name extends the project directory's name", "include('../@PROJ-shared/x.cond')\nrun_command(name='x', run=CMD)\n",
     {"../@PROJ-shared/x.cond": "CMD = 'true'\n"}, False),
    # the same include string used by two COND files of one command: each resolves against its own directory
    ("same relative include in two packages, both exist",
     "include('common.cond')\nrun_command(name='x', run=CMD, deps=['//sub:y'])\n",
     {"common.cond": "CMD = 'true'\n", "sub/common.cond": "CMD = 'false'\n", "sub/COND": "include('common.cond')\nrun_command(name='y', run=CMD)\n"}, True),
    ("same relative include in two packages, missing in the dependency's package",
     "include('common.cond')\nrun_command(name='x', run=CMD, deps=['//sub:y'])\n",
     {"common.cond": "CMD = 'true'\n", "sub/COND": "include('common.cond')\nrun_command(name='y', run='true')\n"}, False),
    ("same relative include in two packages, the dependency's copy raises",
     "include('common.cond')\nrun_command(name='x', run=CMD, deps=['//sub:y'])\n",
     {"common.cond": "CMD = 'true'\n", "sub/common.cond": "raise ValueError('bad')\n", "sub/COND": "include('common.cond')\nrun_command(name='y', run='true')\n"}, False),
    # one included file hands the SAME list object to tasks of two packages: ':setup' resolves per package
    ("shared included deps list used by two packages, both define the task",
     "run_command(name='x', run='true', deps=['//a:run', '//b:run'])\n",
     {"lib/deps.cond": "D = [':setup']\n",
      "a/COND": "include('//lib/deps.cond')\nrun_command(name='setup', run='true')\nrun_command(name='run', run='true', deps=D)\n",
      "b/COND": "include('//lib/deps.cond')\nrun_command(name='setup', run='true')\nrun_command(name='run', run='true', deps=D)\n"}, True),
    ("shared included deps list used by two packages, the second package lacks the task",
     "run_command(name='x', run='true', deps=['//a:run', '//b:run'])\n",
     {"lib/deps.cond": "D = [':setup']\n",
      "a/COND": "include('//lib/deps.cond')\nrun_command(name='setup', run='true')\nrun_command(name='run', run='true', deps=D)\n",
      "b/COND": "include('//lib/deps.cond')\nrun_command(name='run', run='true', deps=D)\n"}, False),
    ("shared included deps list used by two packages, the first-listed package lacks the task",
     "run_command(name='x', run='true', deps=['//b:run', '//a:run'])\n",
     {"lib/deps.cond": "D = [':setup']\n",
      "a/COND": "include('//lib/deps.cond')\nrun_command(name='setup', run='true')\nrun_command(name='run', run='true', deps=D)\n",
      "b/COND": "include('//lib/deps.cond')\nrun_command(name='run', run='true', deps=D)\n"}, False),
    ("same relative include in two packages, the dependency's copy defines a task",
     "include('common.cond')\nrun_command(name='x', run=CMD, deps=['//sub:y'])\n",
     {"common.cond": "CMD = 'true'\n", "sub/common.cond": "run_command(name='z', run='true')\n", "sub/COND": "include('common.cond')\nrun_command(name='y', run='true')\n"}, False),
]
RAISES = ["raise ValueError('{boom}')", "int('{')", "raise KeyError('{0}')", "raise ValueError('boom')", "raise KeyError('k')", "1/0", "assert False, 'no'", "raise RuntimeError()", "import nonexistent_module_zz",
          "undefined_variable + 1", "def broken(:", "class E(Exception): pass\nraise E('custom')", "raise OSError(2, 'nope')", "[][1]",
          "raise StopIteration", "raise LookupError", "int('x')", "{}.missing", "raise NotImplementedError", "raise UnicodeError",
          "open('/nonexistent/file')", "raise MemoryError", "raise RecursionError"]


def run_check(g, proj, D, expect_ok, want_in_err=("COND", ".cond"), cwd=None):
    import conductor.cli.run as cli_run
    existing = set(n for n in os.listdir(proj.out) if ".task" in n) if proj.out.exists() else set()     # (made by earlier commands of a history)
    for check in (True, False):
        sched = graphs.SymSched(g, all_ok=True)
        kern = fakeos.Kernel(sched, clock=fakeos.Clock())
        res = hrun.invoke(cli_run.main, hrun.run_ns(task_identifier="//:x", check=check), cwd or str(proj.root), kern)
        mode = "--check" if check else "run"
        if isinstance(res.status, str):
            g.require(False, "schema:crash:" + res.status[4:], "%s: %s; %s" % (mode, res.exc, D))
        spawned = sorted(p.name for p in kern.tasks())
        outdirs = [n for n in os.listdir(proj.out) if ".task" in n and n not in existing] if proj.out.exists() else []
        if expect_ok:
            g.require(res.status == 0, "schema:valid-definition-rejected", "%s: status=%r error=%s err=%r; %s" % (mode, res.status, res.error_class, res.err[-200:], D))
        else:
            g.require(res.status not in (0, None), "schema:malformed-definition-accepted", "%s: exit 0; %s" % (mode, D))
            lines = [l for l in res.err.split("\n") if l.startswith("ERROR:")]
            g.require(bool(lines) and "Traceback" not in res.err, "schema:no-clean-diagnostic", "%s: stderr=%r; %s" % (mode, res.err[-300:], D))
            g.require(any(w in res.err for w in want_in_err), "schema:diagnostic-does-not-name-the-file", "%s: stderr=%r; %s" % (mode, res.err[-300:], D))
            g.require(not spawned and not outdirs, "schema:executed-despite-error", "%s: spawned %s outputs %s; %s" % (mode, spawned, outdirs, D))
        if check:
            g.require(not spawned and not outdirs, "schema:check-executed-or-created-output", "spawned %s outputs %s; %s" % (spawned, outdirs, D))


def make(two_deviations=False):
    def fn(g):
        family = g.choose("family", 3)
        proj = hrun.Project()
        try:
            if family == 0:
                ctor = list(SCHEMAS)[g.choose("ctor", len(SCHEMAS))]
                params = list(SCHEMAS[ctor])
                kwargs = {p: BASE[p] for p in params}
                ndev = g.choose("ndev", 3 if two_deviations else 2)
                devs = []
                extra = positional = dup_name = False
                used = set()
                for d in range(ndev):
                    what = g.choose("dev%d" % d, len(params) + 3)
                    if what in used:
                        return {"nontrivial": False, "sample": None}
                    used.add(what)
                    if what < len(params):
                        p = params[what]
                        vi = g.choose("val%d" % d, len(POOL) + 1)
                        if vi == len(POOL):
                            kwargs.pop(p, None)
                            devs.append("%s absent" % p)
                        else:
                            kwargs[p] = POOL[vi]
                            devs.append("%s=%r" % (p, POOL[vi]))
                    elif what == len(params):
                        extra = True
                        devs.append("extraneous parameter")
                    elif what == len(params) + 1:
                        positional = True
                        devs.append("positional call")
                    else:
                        dup_name = True
                        devs.append("second task with the same name")
                text = render(ctor, kwargs, extra, positional, dup_name)
                ok = schema_ok(ctor, kwargs, extra, positional, dup_name)
                # the task asked for is //:x: a definition under another (valid) name leaves x undefined
                if ok and kwargs.get("name") != "x":
                    ok = False
                D = "%s with %s -> %r" % (ctor, devs or "no deviation", text.split("\n")[2])
                proj.write("COND", text)
                run_check(g, proj, D, ok)
                g.goal("accepted definition" if ok else "rejected definition")
                return {"nontrivial": bool(devs), "sample": {"case": D, "accepted": ok}}
            if family == 1:
                label, text, files, ok = INCLUDES[g.choose("inc", len(INCLUDES))]
                text = text.replace("@PROJ", proj.root.name)
                files = {rel.replace("@PROJ", proj.root.name): c for rel, c in files.items()}
                for rel, content in files.items():
                    path = proj.root / rel
                    path.parent.mkdir(parents=True, exist_ok=True)
                    if isinstance(content, tuple):
                        os.symlink(str((proj.root / content[1]).resolve()), str(path))
                    else:
                        path.write_text(content)
                proj.write("COND", text)
                D = "include variant: " + label
                # the project directory may be entered through a symbolic link ($PWD then holds the link's path)
                alias = None
                if g.flag("project_entered_through_a_symbolic_link"):
                    alias = os.path.join(os.path.dirname(str(proj.root)), "alias of " + proj.root.name)
                    os.symlink(str(proj.root), alias)
                    D += " (project entered through a symbolic link)"
                try:
                    run_check(g, proj, D, ok, cwd=alias)
                finally:
                    if alias is not None:
                        os.unlink(alias)
                    for rel in files:
                        if rel.startswith("../"):
                            try:
                                os.unlink(str(proj.root / rel))
                                if "-shared/" in rel:
                                    os.rmdir(str((proj.root / rel).parent))
                            except OSError:
                                pass
                g.goal("include variant")
                return {"nontrivial": True, "sample": {"case": D, "accepted": ok}}
            body = RAISES[g.choose("raise", len(RAISES))]
            where = g.choose("raise_where", 2)
            if where == 0:
                proj.write("COND", "run_command(name='x', run='true')\n" + body + "\n")
            else:
                proj.write("COND", "include('inc.cond')\nrun_command(name='x', run='true')\n")
                proj.write("inc.cond", body + "\n")
            D = "body raising: %r in %s" % (body, "the COND file" if where == 0 else "an included file")
            run_check(g, proj, D, False)
            g.goal("COND body raising a Python error")
            return {"nontrivial": True, "sample": {"case": D, "accepted": False}}
        finally:
            proj.cleanup()
    return fn


EDITS = (
    # (file edited, valid text, malformed text of the SAME length)
    ("COND", "run_command(name='x', run='true', deps=[])\n", "run_command(name='x', run='true', deps=\"\")\n"),
    ("COND", "run_command(name='x', run='true')\nA = 8/1\n", "run_command(name='x', run='true')\nA = 8/0\n"),
    ("inc.cond", "ARGS = [1, 22]\n", "ARGS = [1, {}]\n"),
    ("inc.cond", "Y = 10/5\n", "Y = 10/0\n"),
)


def edit_fn(g):
    """A history of two commands with an edit in between: the second command must judge the file as it is NOW, even if the
    edit kept the file's size and modification time (scripted edit within one second, clock standing still, `cp -p`)."""
    which, good, bad = EDITS[g.choose("edit", len(EDITS))]
    keep_mtime = g.flag("edit_keeps_size_and_mtime")
    first = ("run --check", "run")[g.choose("first_command", 2)]
    assert len(good) == len(bad)
    proj = hrun.Project()
    old_dwb = sys.dont_write_bytecode
    sys.dont_write_bytecode = False          # Python's default (this sandbox exports PYTHONDONTWRITEBYTECODE=1)
    try:
        if which == "COND":
            proj.write("COND", good)
        else:
            proj.write("COND", "include('inc.cond')\nrun_command(name='x', run='true', args=globals().get('ARGS', []))\n")
            proj.write("inc.cond", good)
        import conductor.cli.run as cli_run
        D = "valid %s, `cond %s`, then %s replaced by malformed text of the same length (%s), second command" % (
            which, first, which, "same mtime" if keep_mtime else "new mtime")
        kern = fakeos.Kernel(graphs.SymSched(g, all_ok=True), clock=fakeos.Clock())
        r1 = hrun.invoke(cli_run.main, hrun.run_ns(task_identifier="//:x", check=(first == "run --check")), str(proj.root), kern)
        g.require(r1.status == 0, "schema:valid-definition-rejected", "first command: status=%r err=%r; %s" % (r1.status, r1.err[-200:], D))
        path = proj.root / which
        st = os.stat(path)
        path.write_text(bad)
        if keep_mtime:
            os.utime(path, ns=(st.st_atime_ns, st.st_mtime_ns))
        run_check(g, proj, D, False)
        g.goal("file edited between two commands")
        return {"nontrivial": True, "sample": {"case": D}}
    finally:
        sys.dont_write_bytecode = old_dwb
        proj.cleanup()


def scale_fn(g):
    """Large but well-formed definitions (must be accepted) and a malformed element far into a long list (must be rejected cleanly)."""
    shape = ("300-tasks-in-one-file", "task-with-150-deps", "200-args-and-options", "bad-dep-at-position-140", "bad-arg-at-position-180",
             "duplicate-name-after-300-tasks", "option-value-of-20000-chars", "dep-in-package-with-256-char-name",
             "dep-20-levels-of-250-chars")[g.choose("shape", 9)]
    proj = hrun.Project()
    try:
        ok = True
        if shape == "300-tasks-in-one-file":
            text = "".join("run_command(name='t%d', run='true')\n" % i for i in range(300)) + "group(name='x', deps=[':t299'])\n"
        elif shape == "duplicate-name-after-300-tasks":
            text = "".join("run_command(name='t%d', run='true')\n" % i for i in range(300)) + "group(name='x', deps=[':t299'])\nrun_command(name='t0', run='true')\n"
            ok = False
        elif shape in ("task-with-150-deps", "bad-dep-at-position-140"):
            deps = [":t%d" % i for i in range(150)]
            if shape.startswith("bad"):
                deps[140] = 42
                ok = False
            text = "".join("group(name='t%d')\n" % i for i in range(150)) + "run_command(name='x', run='true', deps=%r)\n" % (deps,)
        elif shape in ("200-args-and-options", "bad-arg-at-position-180"):
            args = list(range(200))
            if shape.startswith("bad"):
                args[180] = [1]
                ok = False
            text = "run_experiment(name='x', run='true', args=%r, options=%r)\n" % (args, {"k%d" % i: i for i in range(200)})
        elif shape == "dep-in-package-with-256-char-name":
            text = "run_command(name='x', run='true', deps=['//%s:y'])\n" % ("p" * 256)
            ok = False
        elif shape == "dep-20-levels-of-250-chars":
            text = "run_command(name='x', run='true', deps=['//%s:y'])\n" % "/".join(["q" * 250] * 20)
            ok = False
        else:
            text = "run_command(name='x', run='true', options={'v': %r})\n" % ("z" * 20000)
        proj.write("COND", text)
        run_check(g, proj, "large definition: " + shape, ok)
        g.goal("definition with hundreds of elements")
        return {"nontrivial": True, "sample": {"case": shape, "accepted": ok}}
    finally:
        proj.cleanup()


def spaces(tier):
    goals = ["accepted definition", "rejected definition", "include variant", "COND body raising a Python error"]
    extra = [Space("edit-between-two-commands", edit_fn, "4 edits (valid -> malformed text of the same length, in the COND file or an included "
                   "file) x {new mtime, same size and mtime} x first command {run --check, run}; bytecode writing enabled", depth=4,
                   goals=["file edited between two commands"])]
    sp = [Space("one-deviation", make(False), "4 constructors x (each parameter x (absent | %d pool values) | extraneous | positional | "
                "duplicate name), %d include variants, %d raising bodies x {COND, included file}; run --check and run" % (len(POOL), len(INCLUDES), len(RAISES)),
                depth=4, goals=goals, outside=["BaseException from user code", "more than two deviations"])]
    sp.append(Space("scale-large-definitions", scale_fn, "COND files with 300 tasks, a task with 150 deps, 200 args/options, a 20000-character option "
                    "value - accepted - and the same with one malformed element far into the list / a duplicate name at the end - rejected cleanly",
                    depth=2, goals=["definition with hundreds of elements"]))
    sp.append(Space("two-deviations", make(True), "as above with up to two simultaneous deviations", depth=5))
    return sp + extra


class regenerate_validators:
    """The validators are closures made at import time: mutate the factory, then
    rebuild the validator of every raw task type."""

    def __init__(self, old, new):
        self.rw = rewrite("conductor.parsing.validation", "generate_type_validator", old, new)

    def __enter__(self):
        self.rw.__enter__()
        import conductor.parsing.validation as v
        from conductor.task_types import raw_task_types
        self.saved = {}
        for name, rt in raw_task_types.items():
            self.saved[name] = rt._validator
            rt._validator = v.generate_type_validator(rt._name, rt._schema)
        return self

    def __exit__(self, *a):
        from conductor.task_types import raw_task_types
        for name, val in self.saved.items():
            raw_task_types[name]._validator = val
        return self.rw.__exit__(*a)


def canaries(tier):
    return [
        Canary("extraneous-parameter-check-dropped",
               lambda: regenerate_validators("if arg not in schema:", "if False:")),
        Canary("only-value-errors-wrapped",
               lambda: rewrite("conductor.parsing.task_loader", "TaskLoader.parse_cond_file", "except Exception as ex:", "except ValueError as ex:")),
    ]
