"""C01 - dependencies finish successfully before a task starts.

Bounded symbolic model checking of the real `cond run` (CLI entry, loader,
planner, executor, SigchldHelper, subprocess.Popen) over the fake kernel: the
dependency graph, listing order, task kinds, parallelizable flags, cache bits,
--again, --jobs, the completion order and every child's exit status are solver
variables; the trace monitor's assertions are discharged by z3 under each path
condition.
"""
import os

from vlib import graphs, hrun, fakeos
from vlib.runner import Space, Canary, rewrite, setattr_patch

ID = "C01"
LEVEL = "model_checking"
SOLVER_SHARE = "medium"
RULE = ("one case = one feasible path of the real cond-run code (distinct decision vector: graph, order, kinds, "
        "flags, cache bits, jobs, completion order, sign of each exit status); non-trivial = at least one "
        "dependency edge inside the needed set and at least one spawned child")
TRUSTED = ["z3 4.x/5.x (QF_LIA)", "fake kernel contract (DESIGN 4)", "CPython 3.12 subprocess module (executed, not modelled)"]
ASSUMPTIONS = [
    "children exit only while Conductor is blocked waiting (eager SIGCHLD delivery); batching/late delivery is C09's subject",
    "a task child does nothing but write one file into $COND_OUT and exit with a symbolic status",
    "git disabled (disable_git = true); sqlite and the scratch file system are real",
]


def output_writer(kernel, proc):
    out = proc.env.get("COND_OUT")
    if out and os.path.isdir(out):
        with open(os.path.join(out, "result.txt"), "w") as fh:
            fh.write("by %s pid %d\n" % (proc.name, proc.vpid))


def monitor(g, specs, root, res, sched):
    """The property, over the observed trace."""
    k = res.kernel
    idx = {s.name: j for j, s in enumerate(specs)}
    iv = {}
    for p in k.tasks():
        iv.setdefault(idx[p.name], []).append(p)
    # combine steps: mkdir/symlink events under the combine task's output directory
    steps = {}
    for j, s in enumerate(specs):
        if s.kind == "combine":
            base = str(res.proj.out / s.pkg / (s.name + ".task"))
            ts = [e[1] for e in k.events if (e[0] == "symlink" and e[3].startswith(base + os.sep))
                  or (e[0] == "mkdir" and e[2] == base)]
            if ts:
                steps[j] = ts
    nontrivial = False
    for t in list(iv) + list(steps):
        starts = [p.t_spawn for p in iv.get(t, [])] + steps.get(t, [])[:1]
        for d in graphs.closure(specs, t):
            for pd in iv.get(d, []):
                nontrivial = True
                for st in starts:
                    g.require(pd.t_exit is not None and pd.t_exit < st, "order:dependent-started-before-dependency-finished",
                              "%s started at t=%s but its dependency %s (pid %d) ran [%s,%s]; %s" % (
                                  specs[t].ident, st, specs[d].ident, pd.vpid, pd.t_spawn, pd.t_exit, graphs.describe(specs)))
                    g.require(sched.ok(pd.pid), "order:dependent-started-after-failed-dependency",
                              "%s started although its dependency %s exited with %s; %s" % (
                                  specs[t].ident, specs[d].ident, pd.status, graphs.describe(specs)))
            # a dependency's combine step must be complete too
            if d in steps:
                for st in starts:
                    g.require(max(steps[d]) < st, "order:dependent-started-before-combine-step",
                              "%s started before combine %s finished" % (specs[t].ident, specs[d].ident))
    # no execution of a dependency overlaps an execution of its dependent, ever
    for t in iv:
        for d in graphs.closure(specs, t):
            for pd in iv.get(d, []):
                for pt in iv[t]:
                    g.require(not (pd.t_spawn > pt.t_spawn), "order:dependency-executed-after-dependent",
                              "%s (pid %d) started at %s, after its dependent %s started at %s; %s" % (
                                  specs[d].ident, pd.vpid, pd.t_spawn, specs[t].ident, pt.t_spawn, graphs.describe(specs)))
    if any(len(v) > 1 for v in iv.values()):
        g.goal("never")  # duplicates are C02's subject; reaching here is fine
    return nontrivial


def make(n, kinds, jobs_hi, cache=True, orders="rev", signals=False, all_ok=False):
    def fn(g):
        specs = graphs.sym_graph(g, n, kinds, orders=orders)
        root = n - 1
        again = g.flag("again")
        cached = set()
        if cache and not again:
            cached = {j for j, s in enumerate(specs) if s.kind == "run_experiment" and g.flag("c%d" % j)}
        jobs = g.fresh_int("jobs", 1, jobs_hi, opaque=False)
        sched = graphs.SymSched(g, signals=signals, on_spawn=output_writer, all_ok=all_ok)
        res = graphs.run_graph(g, specs, root, again=again, jobs=jobs, cached=cached, sched=sched)
        try:
            if isinstance(res.status, str):
                g.require(False, "run:crash:" + res.status, "cond run died with %r; %s" % (res.exc, graphs.describe(specs)))
            nontrivial = monitor(g, specs, root, res, sched)
            k = res.kernel
            conc = max((sum(1 for p in k.tasks() if p.t_spawn <= q.t_spawn and (p.t_exit is None or p.t_exit > q.t_spawn))
                        for q in k.tasks()), default=0)
            if conc >= 2:
                g.goal("two tasks running concurrently")
            info = hrun.parse_run_output(res)
            if info["skipping"]:
                g.goal("a failed task with a skipped dependent")
            if n >= 4 and specs[2].kind == "group" and 1 in cached and specs[1].dep_idx == [0] and specs[2].dep_idx == [1] \
                    and sorted(specs[3].dep_idx) == [0, 2] and any(p.name == "t0" for p in k.tasks()):
                g.goal("direct dependency also reachable through a group over a cached task")
            if any(s.kind == "combine" and s.dep_idx for s in specs) and any(e[0] == "symlink" for e in k.events):
                g.goal("combine step with a linked dependency output")
            if any(len(graphs.closure(specs, j)) >= 2 and len(specs[j].dep_idx) >= 2 for j in range(n)) and k.tasks():
                g.goal("shared sub-dependency (diamond or listed transitive dep)")
            return {"nontrivial": nontrivial,
                    "sample": {"tasks": graphs.describe(specs), "again": again, "jobs": int(jobs), "cached": sorted(cached),
                               "events": [e[:4] for e in k.events if e[0] in ("spawn", "exit")][:12], "status": res.status}}
        finally:
            res.proj.cleanup()
    return fn


GOALS3 = ["two tasks running concurrently", "a failed task with a skipped dependent",
          "combine step with a linked dependency output", "shared sub-dependency (diamond or listed transitive dep)"]


def spaces(tier):
    sp = [Space("n3-allkinds-j2", make(3, graphs.ALL_KINDS, 2),
                "N<=3 task definitions, every edge set i->j (i<j), deps listed forward or reversed, kinds "
                "{run_experiment, run_command, group, combine}, parallelizable bits, cache bit per experiment, --again, "
                "--jobs 1..2, every completion order, one symbolic exit status 0..255 per child",
                depth=7, goals=GOALS3, outside=["N>3", "jobs>2", "delayed/batched SIGCHLD (see C09)"])]
    from vlib import induct
    sp.append(Space("inductive-wait-step", induct.wait_step,
                    "ONE real _wait_for_next_inflight_op step from an arbitrary valid executor state (1..4 slots, any in-flight set): "
                    "a dependent is enqueued if and only if all of its dependencies have finished - for graphs of any size",
                    depth=6, goals=["inductive step completes an operation"]))
    sp.append(Space("n4-group-over-cached", make(4, graphs.ALL_KINDS, 2, all_ok=True),
                    "N=4 with t0 a command, t1 an experiment (cache bit) and t2 a group: every edge set, listing order, kind of t3, par bits, "
                    "cache bits, jobs 1..2, completion orders, all children exit 0 (a dependency reachable both directly and "
                    "through a group over a cached task)", depth=10, preset={"k0": 1, "k1": 0, "k2": 2, "again": False},
                    goals=["direct dependency also reachable through a group over a cached task"]))
    if tier == "thorough":
        sp.append(Space("n4-subprocess-j3", make(4, ("run_experiment", "run_command"), 3, cache=False, orders="rev"),
                        "N=4, kinds {run_experiment, run_command}, --jobs 1..3, --again bit, no cache bits, "
                        "deps forward/reversed, every completion order, symbolic exit statuses",
                        depth=9, tiers=("thorough",)))
        sp.append(Space("n3-allperm-signals", make(3, graphs.ALL_KINDS, 3, orders="all", signals=True),
                        "N=3, all kinds, all permutations of deps, jobs 1..3, child may die from a symbolic signal 1..64",
                        depth=7, tiers=("thorough",)))
    return sp


def canaries(tier):
    return [
        Canary("planner-drops-last-listed-dep",
               lambda: rewrite("conductor.execution.planning.planner", "ExecutionPlanner.create_plan_for",
                               "for dep in lt.deps:\n", "for dep in lt.deps[:-1] if len(lt.deps) > 1 else lt.deps:\n")),
        Canary("executor-enqueues-at-waiting-on-1",
               lambda: rewrite("conductor.execution.executor", "Executor._process_finished_op",
                               "if dep_of.waiting_on > 0:", "if dep_of.waiting_on > 1:")),
    ]
