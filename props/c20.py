"""C20 - task identifiers: one grammar, canonical form, distinct output locations.

Four groups of solver obligations generated from the running code:
 1. acceptance <=> documented grammar: the accept-set of each string-taking
    entry point is extracted concolically (regexes translated from sre with
    CPython's `$` semantics) and compared with the grammar by two z3
    language-difference queries over strings of unbounded length;
 2. group extraction is unambiguous (cvc5 word equations);
 3. print/parse round trip and relative resolution on every accepted string
    of length <= 7 over a 5-letter alphabet, enumerated by the solver;
 4. distinct identifiers/versions => distinct output directories (cvc5 word
    equations over path templates obtained from the real functions).
"""
import itertools
import os
import pathlib
import re
import time

import z3

from vlib import smtstr, hrun
from vlib.runner import Lemma, Canary, rewrite, setattr_patch

ID = "C20"
LEVEL = "other"
SOLVER_SHARE = "high"
EXPLANATION = ("SMT lemmas over strings of unbounded length: regular-language equivalence (z3 sequence/regex theory) between "
               "the implementation's accept-sets, extracted concolically from the real functions, and the documented grammar; "
               "word-equation unsatisfiability (cvc5 --strings-exp) for unambiguous decomposition and injective output "
               "locations; solver-enumerated bounded round-trip checks on the real code.")
RULE = "one case = one solver obligation (language difference, completeness of extraction, word equation) or one solver-enumerated string run through the real functions"
TRUSTED = ["z3 5.x sequence/regex theory", "cvc5 1.0.3 --strings-exp", "sre parse tree -> z3 regex translation (validated against re on the repo's test inputs and on enumerated strings)"]
ASSUMPTIONS = ["version timestamps are positive integers rendered in decimal", "path templates do not inspect characters of a component (checked with two different stand-ins)",
               "round trip: identifier characters represented by {a, -}; generalisation to the full class is not claimed by the solver"]

MODS = ["conductor.task_identifier", "conductor.task_types.raw", "conductor.parsing.task_index", "conductor.cli.gc"]

R = lambda s: z3.Re(z3.StringVal(s))
IDENT_CH = z3.Union(z3.Range("a", "z"), z3.Range("A", "Z"), z3.Range("0", "9"), R("_"), R("-"))
IDENT = z3.Plus(IDENT_CH)
BODY = z3.Concat(z3.Star(z3.Concat(IDENT, R("/"))), z3.Option(IDENT), R(":"), IDENT)
SPEC = {
    "name": IDENT,
    "ident_prefixed": z3.Concat(R("//"), BODY),
    "ident_optional_prefix": z3.Concat(z3.Option(R("//")), BODY),
    "relative": z3.Concat(R(":"), IDENT),
    "dep": z3.Union(z3.Concat(R(":"), IDENT), z3.Concat(R("//"), BODY)),
}
PY_IDENT = r"[A-Za-z0-9_-]+"
PY_BODY = r"(?:%s/)*(?:%s)?:%s" % (PY_IDENT, PY_IDENT, PY_IDENT)
PY_SPEC = {
    "name": PY_IDENT, "ident_prefixed": "//" + PY_BODY, "ident_optional_prefix": "(?://)?" + PY_BODY,
    "relative": ":" + PY_IDENT, "dep": "(?::%s|//%s)" % (PY_IDENT, PY_BODY),
}


def in_spec(kind, s):
    return re.fullmatch(PY_SPEC[kind], s) is not None


def entry_points():
    from conductor.task_identifier import TaskIdentifier
    from conductor.errors import ConductorError
    from conductor.task_types import raw_task_types
    from conductor.parsing.task_index import TaskIndex

    def materialize_dep(s):
        ti = TaskIndex(pathlib.Path("/nonexistent-project"))
        raw = raw_task_types["group"].load_from_cond_file(name="x", deps=[s])
        raw["cond_file_path"] = pathlib.Path("/nonexistent-project/p/COND")
        ti._materialize_raw_task(TaskIdentifier(pathlib.Path("p"), "x"), raw)
        return True

    return [
        ("is_name_valid", "name", lambda s: TaskIdentifier.is_name_valid(s), ["abc", "a b"]),
        ("from_str(require_prefix=True)", "ident_prefixed", lambda s: TaskIdentifier.from_str(s) is not None, ["//a/b:c", "a:b", "x"]),
        ("from_str(require_prefix=False)", "ident_optional_prefix", lambda s: TaskIdentifier.from_str(s, require_prefix=False) is not None, ["//a/b:c", "a:b", "x"]),
        ("from_relative_str", "relative", lambda s: TaskIdentifier.from_relative_str(s, pathlib.Path("p")) is not None, [":c", "c"]),
        ("run_experiment(name=...)", "name", lambda s: raw_task_types["run_experiment"].load_from_cond_file(name=s, run="true") is not None, ["abc", "a b"]),
        ("deps=[...] resolution", "dep", materialize_dep, [":c", "//a:b", "a:b"]),
    ], ConductorError


def real_accepts(fn, s, exc):
    try:
        return fn(s) is not False
    except exc:
        return False


def lemma_acceptance():
    eps, exc = entry_points()
    out = {"obligations": 0, "discharged": 0, "queries": 0, "solver_s": 0.0, "violations": [], "samples": [], "inconclusive": []}
    for label, kind, fn, seeds in eps:
        try:
            ex = smtstr.extract(fn, MODS, seeds=seeds, reject_exc=(exc,))
        except (AttributeError, TypeError) as e_:
            if "deps" in label:
                # this entry point is reached through a private method of TaskIndex; if a refactoring renamed it the
                # entry point is skipped (the same resolution is still covered through `cond run` in the relative-deps space)
                out["samples"].append({"function": label, "skipped": "entry point not reachable: %r" % e_})
                continue
            raise
        out["queries"] += ex.queries
        out["solver_s"] += ex.solver_s
        for p in sorted(set(ex.problems)):
            out["inconclusive"].append("%s: %s" % (label, p))
        if not any(acc for _, acc, _ in ex.paths):
            out["inconclusive"].append("%s: no accepting path found" % label)
        s = ex.var
        # translator validation: every path's witness agrees with the real function (un-shimmed)
        for lits, acc, w in ex.paths:
            if real_accepts(fn, w, exc) != acc:
                out["inconclusive"].append("%s: shimmed and real runs disagree on %r" % (label, w))
        A, Rj, Sp = ex.accept_re, ex.reject_re, SPEC[kind]
        obligations = [
            ("extraction complete", [z3.InRe(s, z3.Complement(z3.Union(A, Rj)))], None),
            ("accepted but outside the grammar", [z3.InRe(s, z3.Intersect(A, z3.Complement(Sp)))], True),
            ("in the grammar but rejected", [z3.InRe(s, z3.Intersect(Sp, z3.Complement(A)))], False),
        ]
        for what, cs, expect_accept in obligations:
            out["obligations"] += 1
            r, wit = smtstr.solve(cs, s, stats=ex)
            out["queries"] += 1
            if r == "unsat":
                out["discharged"] += 1
                continue
            if r != "sat":
                out["inconclusive"].append("%s / %s: solver %s" % (label, what, r))
                continue
            w = smtstr.z3_unescape(wit)
            if expect_accept is None:
                out["inconclusive"].append("%s: exploration incomplete, uncovered input %r" % (label, w))
                continue
            # replay on the real, un-shimmed function against the independent grammar recogniser
            a = real_accepts(fn, w, exc)
            if a == expect_accept and in_spec(kind, w) != expect_accept:
                sig = "identifier:accepts-outside-grammar" if expect_accept else "identifier:rejects-grammatical"
                tail = ":trailing-newline" if (expect_accept and w.endswith("\n") and in_spec(kind, w[:-1])) else ""
                out["violations"].append((sig + tail + ":" + label, "%s %s %r" % (label, "accepts" if a else "rejects", w), w))
            else:
                out["inconclusive"].append("%s / %s: witness %r did not reproduce on the real function" % (label, what, w))
        out["solver_s"] += ex.solver_s
        out["samples"].append({"function": label, "paths": len(ex.paths), "patterns": sorted(set(ex.patterns))[:4],
                               "witnesses": [w for _, _, w in ex.paths][:6]})
    return out


# ---------------------------------------------------------------- obligation 2

def lemma_unambiguous():
    import conductor.task_identifier as ti
    out = {"obligations": 0, "discharged": 0, "queries": 0, "solver_s": 0.0, "violations": [], "samples": [], "inconclusive": []}
    pats = [(n, v) for n, v in vars(ti).items() if isinstance(v, re.Pattern) and v.groupindex]
    if not pats:
        out["inconclusive"].append("no pattern with named groups found in conductor.task_identifier")
    for name, pat in pats:
        try:
            parts, end = smtstr.top_level_parts(pat.pattern)
        except smtstr.Unsupported as ex:
            out["inconclusive"].append("%s: %s" % (name, ex))
            continue
        s = z3.String("s")
        cs = []
        copies = []
        for c in (1, 2):
            vs = []
            for i, (gname, L) in enumerate(parts):
                v = z3.String("p%d_%d" % (c, i))
                cs.append(z3.InRe(v, L))
                vs.append((gname, v))
            tailv = z3.String("t%d" % c)
            cs.append(z3.Or(tailv == z3.StringVal(""), tailv == z3.StringVal("\n")) if end == "$" else tailv == z3.StringVal(""))
            cs.append(s == z3.Concat(*[v for _, v in vs], tailv))
            copies.append(vs)
        named = [(a[1], b[1]) for a, b in zip(*copies) if a[0] is not None]
        cs.append(z3.Or(*[a != b for a, b in named]))
        out["obligations"] += 1
        txt = smtstr.to_smt2(cs, get=("s",))
        r, dt, model = smtstr.cvc5_check(txt, 60)
        out["queries"] += 1
        out["solver_s"] += dt
        if r == "unsat":
            out["discharged"] += 1
        elif r == "sat":
            out["violations"].append(("identifier:ambiguous-decomposition:" + name, "two parses of one string: %s" % model[:200], model[:200]))
        else:
            out["inconclusive"].append("%s: cvc5 %s" % (name, r))
        out["samples"].append({"pattern": name, "groups": [g for g, _ in parts if g], "cvc5": r, "s": round(dt, 2)})
    return out


# ---------------------------------------------------------------- obligation 3

ALPHA = ["a", "-", "/", ":", "\n"]


def lemma_roundtrip(maxlen):
    def fn():
        from conductor.task_identifier import TaskIdentifier
        eps, exc = entry_points()
        label, kind, call, seeds = eps[2]       # from_str(require_prefix=False): the widest parser
        ex = smtstr.extract(call, MODS, seeds=seeds, reject_exc=(exc,))
        out = {"obligations": 0, "discharged": 0, "queries": ex.queries, "solver_s": ex.solver_s, "violations": [], "samples": [],
               "inconclusive": ["roundtrip: " + p for p in sorted(set(ex.problems))]}
        s = ex.var
        ch = z3.Union(*[z3.Re(z3.StringVal(c)) for c in ALPHA])
        sol = z3.Solver()
        sol.set("timeout", 60000)
        sol.add(ex.accept, z3.InRe(s, z3.Star(ch)), z3.Length(s) <= maxlen)
        n = 0
        t0 = time.perf_counter()
        while True:
            r = sol.check()
            out["queries"] += 1
            if r == z3.unsat:
                break
            if r != z3.sat:
                out["inconclusive"].append("roundtrip enumeration: solver %s" % r)
                break
            w = smtstr.z3_unescape(sol.model().eval(s, model_completion=True).as_string())
            sol.add(s != z3.StringVal(w))
            n += 1
            out["obligations"] += 1
            try:
                a = TaskIdentifier.from_str(w, require_prefix=False)
                printed = str(a)
                b = TaskIdentifier.from_str(printed)
                ok = (a == b) and hash(a) == hash(b) and str(b) == printed
                # the printed form is canonical: it is in the grammar and parsing what was typed gives the same task
                ok = ok and in_spec("ident_prefixed", printed)
                if in_spec("ident_optional_prefix", w):
                    segs = [x for x in w.lstrip("/").rsplit(":", 1)[0].split("/") if x]
                    ok = ok and list(a.path.parts) == segs and a.name == w.rsplit(":", 1)[1]
                detail = "%r -> %r -> %r" % (w, printed, str(b))
            except Exception as e:
                ok, detail = False, "%r: %r" % (w, e)
            if ok:
                out["discharged"] += 1
            else:
                out["violations"].append(("identifier:roundtrip", "print/parse round trip fails: " + detail, w))
                if len(out["violations"]) > 5:
                    break
            if n <= 3:
                out["samples"].append({"accepted": w, "printed": printed if ok else None})
        # relative resolution: ':n' resolves against the listing file's directory
        for depth in range(3):
            d = pathlib.Path(*["p%d" % i for i in range(depth)]) if depth else pathlib.Path()
            for nm in ("a", "-", "a-"):
                out["obligations"] += 1
                r_ = TaskIdentifier.from_relative_str(":" + nm, d)
                full = TaskIdentifier.from_str("//" + "/".join(d.parts) + ":" + nm)
                if r_ == full and r_.path == d and r_.name == nm and hash(r_) == hash(full):
                    out["discharged"] += 1
                else:
                    out["violations"].append(("identifier:relative-resolution", "':%s' in %s resolved to %s" % (nm, d, r_), nm))
        out["solver_s"] += time.perf_counter() - t0
        out["samples"].append({"accepted_strings_enumerated": n, "max_len": maxlen, "alphabet": ALPHA})
        # deep package paths: accepted strings of the shape (//)? (x/){4..8} : n with x in {a, b}, enumerated by the solver as well
        seg = z3.Union(z3.Re(z3.StringVal("a")), z3.Re(z3.StringVal("b")))
        deep = z3.Concat(z3.Option(z3.Re(z3.StringVal("//"))), z3.Loop(z3.Concat(seg, z3.Re(z3.StringVal("/"))), 3, DEEP_MAX - 1), seg, z3.Re(z3.StringVal(":n")))
        sol2 = z3.Solver()
        sol2.set("timeout", 60000)
        sol2.add(ex.accept, z3.InRe(s, deep))
        nd = 0
        t1 = time.perf_counter()
        while nd < 1200:
            r = sol2.check()
            out["queries"] += 1
            if r == z3.unsat:
                break
            if r != z3.sat:
                out["inconclusive"].append("deep roundtrip enumeration: solver %s" % r)
                break
            w = smtstr.z3_unescape(sol2.model().eval(s, model_completion=True).as_string())
            sol2.add(s != z3.StringVal(w))
            nd += 1
            out["obligations"] += 1
            try:
                a = TaskIdentifier.from_str(w, require_prefix=False)
                printed = str(a)
                b = TaskIdentifier.from_str(printed)
                segs = w.lstrip("/").rsplit(":", 1)[0].split("/")
                ok = a == b and hash(a) == hash(b) and printed == "//" + w.lstrip("/") and list(a.path.parts) == segs and a.name == "n"
                detail = "%r -> %r -> %r" % (w, printed, str(b))
            except Exception as e:
                ok, detail = False, "%r: %r" % (w, e)
            if ok:
                out["discharged"] += 1
            else:
                out["violations"].append(("identifier:roundtrip", "print/parse round trip fails for a deep package path: " + detail, w))
                break
        out["samples"].append({"deep_paths_enumerated": nd, "segments": "4..%d" % DEEP_MAX})
        out["solver_s"] += time.perf_counter() - t1
        return out
    return fn


DEEP_MAX = 8


def lemma_rejection_terminates():
    """Every parser answers (accepts or rejects with a ConductorError) within a time budget on long near-miss
    strings: long runs of valid characters followed by one invalid character.  The strings come from the solver:
    members of the complement of the extracted accept set inside a near-miss template."""
    import signal as _signal
    eps, exc = entry_points()
    out = {"obligations": 0, "discharged": 0, "queries": 0, "solver_s": 0.0, "violations": [], "samples": [], "inconclusive": []}

    class _Timeout(BaseException):
        pass

    def on_alarm(signum, frame):
        raise _Timeout()
    for label, kind, call, seeds in eps:
        ex = smtstr.extract(call, MODS, seeds=seeds, reject_exc=(exc,))
        out["queries"] += ex.queries
        out["solver_s"] += ex.solver_s
        sv = ex.var
        words = []
        t0 = time.perf_counter()
        for L in (24, 48, 96):
            # a long accepted string chosen by the solver, damaged at the end / in the middle
            sol = z3.Solver()
            sol.set("timeout", 20000)
            sol.add(ex.accept, z3.Length(sv) == L)
            r = sol.check()
            out["queries"] += 1
            if r == z3.sat:
                w0 = smtstr.z3_unescape(sol.model().eval(sv, model_completion=True).as_string())
                words += [w0 + "!", w0 + chr(10) + "x", w0 + " ", w0[:L // 2] + "!" + w0[L // 2:], w0 + "/:"]
        out["solver_s"] += time.perf_counter() - t0
        # plus the classic shapes, at several lengths
        for L in (30, 60, 200, 2000):
            words += ["//" + "a" * L + "!", "a/" * L + "!", "//" + "a/" * (L // 2) + ":n!", "//" + "a/" * (L // 2) + "n", ":" + "a" * L + chr(10),
                      "//" + "a-" * L + ":x" + chr(10), "a" * L + " ", "//" + "/".join(["ab"] * (L // 3)) + ":" + "n" * L + "!"]
        for w in words:
            out["obligations"] += 1
            old = _signal.signal(_signal.SIGALRM, on_alarm)
            _signal.setitimer(_signal.ITIMER_REAL, REJECT_BUDGET_S)
            t1 = time.perf_counter()
            try:
                real_accepts(call, w, exc)
                took = time.perf_counter() - t1
                done = True
            except _Timeout:
                done = False
            except Exception as e:
                done = True         # (what it answers is the acceptance lemma's subject)
            finally:
                _signal.setitimer(_signal.ITIMER_REAL, 0)
                _signal.signal(_signal.SIGALRM, old)
            if done:
                out["discharged"] += 1
            else:
                out["violations"].append(("identifier:parser-does-not-terminate", "%s does not answer within %d s on a %d-character string %r..." % (
                    label, REJECT_BUDGET_S, len(w), w[:40]), w))
                break
        out["samples"].append({"entry_point": label, "near_miss_strings": len(words)})
    return out


REJECT_BUDGET_S = 20


# ---------------------------------------------------------------- obligation 4

def real_output_dirs(standins):
    """Ask the real code where outputs of given tasks live.  standins: list of
    (segments tuple, name, versioned bool, timestamp). Returns relative strings."""
    from conductor.context import Context
    from conductor.task_identifier import TaskIdentifier
    proj = hrun.Project()
    try:
        res = []
        texts = {}
        for segs, name, versioned, ts in standins:
            pkg = "/".join(segs)
            kind = "run_experiment" if versioned else "run_command"
            texts[pkg] = texts.get(pkg, "") + "%s(name=%r, run='true')\n" % (kind, name)
        for pkg, text in texts.items():
            proj.write(os.path.join(pkg, "COND"), text)
        for segs, name, versioned, ts in standins:
            if versioned:
                proj.add_version("//%s:%s" % ("/".join(segs), name), ts)
        ctx = Context(proj.root)
        for segs, name, versioned, ts in standins:
            tid = TaskIdentifier.from_str("//%s:%s" % ("/".join(segs), name))
            ctx.task_index.load_single_task(tid)
            p = ctx.task_index.get_task(tid).get_output_path(ctx)
            res.append(str(p.relative_to(ctx.output_path)))
        return res
    finally:
        proj.cleanup()


def template(k, versioned, names):
    segs = tuple(names[:k])
    name = names[k]
    ts = 987650000 + len(names[0])
    (s,) = real_output_dirs([(segs, name, versioned, ts)])
    toks = list(segs) + [name] + ([str(ts)] if versioned else [])
    # split the returned string at the stand-ins
    parts = []
    rest = s
    for i, tok in enumerate(toks):
        j = rest.find(tok)
        if j < 0:
            continue          # this component does not influence the location (its variable stays free)
        if j > 0:
            parts.append(("lit", rest[:j]))
        parts.append(("var", i))
        rest = rest[j + len(tok):]
    if rest:
        parts.append(("lit", rest))
    return parts


def lemma_injective(kmax):
    def fn():
        out = {"obligations": 0, "discharged": 0, "queries": 0, "solver_s": 0.0, "violations": [], "samples": [], "inconclusive": []}
        A = ["zqa", "zqb", "zqc", "zqd"]
        B = ["wxyz1", "wxyz2", "wxyz3", "wxyz4"]
        temps = {}
        for k in range(kmax + 1):
            for ver in (False, True):
                t1 = template(k, ver, A)
                t2 = template(k, ver, B)
                if t1 != t2:
                    out["inconclusive"].append("template for k=%d versioned=%s depends on the component text: %s vs %s" % (k, ver, t1, t2))
                temps[(k, ver)] = t1
        # the templates only stand for names that are embedded verbatim: probe long names (directory-name limits)
        for ln in (1, 64, 200, 201, 240):
            n1, n2 = "q" * (ln - 1) + "1", "q" * (ln - 1) + "2"
            out["obligations"] += 1
            try:
                d1, d2 = real_output_dirs([((), n1, False, 0), ((), n2, False, 0)])
            except OSError as ex:
                out["discharged"] += 1          # the file system refuses such a name: no directory, no collision
                continue
            if d1 == d2:
                out["violations"].append(("identifier:output-dir-collision:long-names", "names of length %d differing in the last character share the output directory %s" % (ln, d1[:60]), n1))
            elif n1 not in d1 or n2 not in d2:
                out["inconclusive"].append("a name of length %d is not embedded verbatim in its output directory: the template lemma does not cover it" % ln)
            else:
                out["discharged"] += 1
        digits = z3.Concat(z3.Range("1", "9"), z3.Star(z3.Range("0", "9")))
        combos = [(a, b) for a in temps for b in temps if a <= b]
        for (ka, va), (kb, vb) in combos:
            cs = []
            sides = []
            for side, (k, ver) in (("l", (ka, va)), ("r", (kb, vb))):
                vs = [z3.String("%s%d" % (side, i)) for i in range(k + 1 + (1 if ver else 0))]
                for i, v in enumerate(vs):
                    cs.append(z3.InRe(v, digits if (ver and i == k + 1) else IDENT))
                pieces = [z3.StringVal(x) if kind == "lit" else vs[x] for kind, x in temps[(k, ver)]]
                sides.append((vs, z3.Concat(*pieces) if len(pieces) > 1 else pieces[0]))
            cs.append(sides[0][1] == sides[1][1])
            if (ka, va) == (kb, vb):
                cs.append(z3.Or(*[a != b for a, b in zip(sides[0][0], sides[1][0])]))
            out["obligations"] += 1
            r, dt, model = smtstr.cvc5_check(smtstr.to_smt2(cs), 60)
            out["queries"] += 1
            out["solver_s"] += dt
            if r == "unsat":
                out["discharged"] += 1
            elif r == "sat":
                out["violations"].append(("identifier:output-dir-collision", "two different tasks/versions share an output directory (k=%d,%s vs k=%d,%s): %s" % (ka, va, kb, vb, model[:200]), model[:200]))
            else:
                out["inconclusive"].append("injectivity (k=%d,%s)/(k=%d,%s): cvc5 %s" % (ka, va, kb, vb, r))
        out["samples"].append({"templates": {"%d,%s" % k: v for k, v in temps.items()}, "pairs": len(combos)})
        return out
    return fn


def relative_fn(g):
    """':name' dependencies resolve against the directory of the COND file that
    lists them - through the real loader and `cond run`, several packages using
    the same relative string in one invocation."""
    import conductor.cli.run as cli_run
    from vlib import graphs, fakeos
    from vlib.hrun import TaskSpec
    pk = ("", "a", "b", "a/c", "SECOND", "SE")
    chosen = [pk[i] for i in range(len(pk)) if g.flag("pkg%d" % i)]
    if not chosen:
        return {"nontrivial": False, "sample": None}
    rev = g.flag("rev")
    specs = []
    for p_ in chosen:
        specs.append(TaskSpec("prep", "run_command", [], pkg=p_))
        specs.append(TaskSpec("main", "run_command", [":prep"], pkg=p_))
    mains = [s_.ident for s_ in specs if s_.name == "main"]
    if rev:
        mains.reverse()
    specs.append(TaskSpec("all", "group", mains, pkg="top"))
    proj = hrun.Project()
    try:
        proj.write_tasks(specs)
        sched = graphs.SymSched(g, all_ok=True, on_spawn=graphs.output_writer)
        kern = fakeos.Kernel(sched, clock=fakeos.Clock())
        res = hrun.invoke(cli_run.main, hrun.run_ns(task_identifier="//top:all"), str(proj.root), kern)
        D = "packages=%s listing reversed=%s" % (chosen, rev)
        if isinstance(res.status, str):
            g.require(False, "identifier:relative-resolution:crash:" + res.status[4:], "%s; %s" % (res.exc, D))
        g.require(res.status == 0, "identifier:relative-resolution:run-failed", "status=%r error=%s; %s" % (res.status, res.error_class, D))
        ran = sorted((os.path.relpath(p_.cwd, str(proj.root)).replace(".", "", 1) if os.path.relpath(p_.cwd, str(proj.root)) == "." else os.path.relpath(p_.cwd, str(proj.root)), p_.name) for p_ in kern.tasks())
        want = sorted((p_, n) for p_ in chosen for n in ("main", "prep"))
        g.require(ran == want, "identifier:relative-resolution:wrong-tasks-ran", "ran %s, expected %s; %s" % (ran, want, D))
        for p_ in kern.tasks():
            if p_.name == "main":
                pkg = os.path.relpath(p_.cwd, str(proj.root))
                pkg = "" if pkg == "." else pkg
                g.require(p_.env.get("COND_DEPS") == str(proj.out / pkg / "prep.task"), "identifier:relative-resolution:wrong-package",
                          "//%s:main got COND_DEPS=%r; %s" % (pkg, p_.env.get("COND_DEPS"), D))
        if len(chosen) >= 2:
            g.goal("same relative dependency string in two packages")
        return {"nontrivial": len(chosen) >= 2, "sample": {"case": D, "ran": ran}}
    finally:
        proj.cleanup()


def spaces(tier):
    from vlib.runner import Space
    return [Space("relative-deps-in-several-packages", relative_fn,
                  "every non-empty subset of packages {root, a, b, a/c, SECOND, SE}, each with main deps=[':prep'], a group over all mains "
                  "(listing order forward/reversed), one `cond run`", depth=5, goals=["same relative dependency string in two packages"])]


def lemmas(tier):
    ls = [Lemma("acceptance-vs-grammar", lemma_acceptance,
                "6 entry points (is_name_valid, from_str with/without required prefix, from_relative_str, run_experiment(name=), "
                "deps resolution); strings of unbounded length over full Unicode; 3 obligations each"),
          Lemma("unambiguous-decomposition", lemma_unambiguous, "every pattern with named groups in conductor.task_identifier; unbounded strings; cvc5"),
          Lemma("rejection-terminates", lemma_rejection_terminates, "six entry points; near-miss strings of 25..2000 characters (solver-chosen "
                "members of the complement of the accept set + classic shapes); each must be answered within 20 s"),
          Lemma("roundtrip-len6", lemma_roundtrip(6), "every accepted string of length <= 6 over {a,-,/,:,\\n}, enumerated by z3 with blocking clauses", tiers=("quick",)),
          Lemma("injective-output-dirs-k1", lemma_injective(1), "identifiers with <=1 path segment, version present/absent; cvc5 word equations, unbounded component lengths", tiers=("quick",))]
    if tier == "thorough":
        ls.append(Lemma("roundtrip-len8", lemma_roundtrip(8), "every accepted string of length <= 8 over {a,-,/,:,\\n}", tiers=("thorough",)))
        ls.append(Lemma("roundtrip-len7", lemma_roundtrip(7), "every accepted string of length <= 7 over {a,-,/,:,\\n}", tiers=("thorough",)))
        ls.append(Lemma("injective-output-dirs-k3", lemma_injective(3), "identifiers with <=3 path segments, version present/absent", tiers=("thorough",)))
    return ls


def canaries(tier):
    def dot_ident():
        return rewrite_module_regex("IDENTIFIER_GROUP", "[a-zA-Z0-9_-]+", "[a-zA-Z0-9_.-]+")
    return [
        Canary("dot-admitted-in-identifiers", dot_ident, lemma=lemma_acceptance),
        Canary("output-dir-ignores-package-path",
               lambda: rewrite("conductor.task_types.base", "TaskType.__init__",
                               "self.identifier.path, f.task_output_dir(self.identifier)", "f.task_output_dir(self.identifier)"),
               lemma=lemma_injective(1)),
    ]


class rewrite_module_regex:
    """Recompile the identifier regexes of conductor.task_identifier with a changed character class."""

    def __init__(self, const, old, new):
        self.const, self.old, self.new = const, old, new

    def __enter__(self):
        import conductor.task_identifier as ti
        from vlib.runner import StaleCanary
        self.saved = {}
        hit = 0
        for k, v in list(vars(ti).items()):
            if isinstance(v, re.Pattern) and self.old in v.pattern:
                self.saved[k] = v
                setattr(ti, k, re.compile(v.pattern.replace(self.old, self.new)))
                hit += 1
        if not hit:
            raise StaleCanary("no identifier regex contains %r" % self.old)
        self.ti = ti
        return self

    def __exit__(self, *a):
        for k, v in self.saved.items():
            setattr(self.ti, k, v)
        return False


def replay_witness(d):
    w = d["values"].get("witness")
    eps, exc = entry_points()
    if d["sig"] == "identifier:roundtrip":
        from conductor.task_identifier import TaskIdentifier
        try:
            a = TaskIdentifier.from_str(w, require_prefix=False)
            b = TaskIdentifier.from_str(str(a))
            return not (a == b and str(a) == "//" + w.lstrip("/"))
        except Exception:
            return True
    for label, kind, fn, _ in eps:
        if d["sig"].endswith(":" + label):
            return real_accepts(fn, w, exc) != in_spec(kind, w)
    return False
