"""C16 - an interrupt stops all running tasks and records nothing unfinished.

The handler Conductor registers for SIGINT/SIGTERM is invoked at the k-th
executed line of Conductor's own modules (and while the main thread is blocked
in the self-pipe read); k is a solver variable over [0, L) with L measured on
the same path without a fault, so every point is visited; graph, par bits, jobs,
which children fail and the completion order stay solver variables along it.
"""
import gc
import os
import signal
import sys

from vlib import graphs, hrun, fakeos, symx, crash
from vlib.runner import Space, Canary, rewrite, setattr_patch

ID = "C16"
LEVEL = "fault_enumeration"
SOLVER_SHARE = "low"
RULE = ("one case = (graph, par bits, jobs, failing children, completion order, signal, injection point k); every "
        "executed line of conductor.* after the handlers are registered, plus every blocked read, is an injection "
        "point; non-trivial = at least one task process has been spawned when the signal arrives")
TRUSTED = ["z3 (only prunes here: k and the scenario are finite choices)", "fake kernel contract (DESIGN 4)",
           "line granularity: CPython runs Python-level signal handlers between bytecodes; injection is before a line executes"]
ASSUMPTIONS = ["signals arriving inside library code (between fork and the return of Popen()) and at bytecode granularity are outside the claim",
               "frames of finalisers (__del__) are injection points: CPython runs handlers there and discards what they raise",
               "`except X:` header lines reached by an exception in flight are not injection points (no call, back-edge or function entry: "
               "CPython cannot run a handler there); the loop of prevent_module_caching over sys.modules counts for two iterations",
               "the run with the fault follows the completion order of the fault-free run of the same path; the fault index ranges one block "
               "beyond the measured length and a fault firing there makes the check inconclusive"]

import conductor as _c
SRC = os.path.dirname(os.path.realpath(_c.__file__)) + os.sep
_LCACHE = {}
_RUNS = [0]


LOADER = SRC + "parsing/task_loader.py"
MAJOR = ("TaskLoader._run_include", "TaskLoader.parse_cond_file", "RunTaskExecutable.start_execution", "RunTaskExecutable.finish_execution", "CombineOutputs.start_execution",
         "Executor._launch_ops_if_able", "Executor._wait_for_next_inflight_op", "Executor._report_execution_results",
         "Executor.run_plan", "ExecutionPlanner.create_plan_for", "SigchldHelper._handler", "SigchldHelper.track",
         "TaskIndex.load_transitive_closure", "Context.__init__", "main", "cli_command.<locals>.command_main")


def site_of(frame):
    """Call site used in finding signatures: an enclosing finaliser if there is
    one (CPython discards what is raised there), else the nearest major function."""
    names = []
    f = frame
    while f is not None:
        if f.f_code.co_filename.startswith(SRC):
            names.append(f.f_code.co_qualname)
        f = f.f_back
    for nm in names:
        if nm.endswith(".__del__"):
            return nm
    for nm in names:
        if nm in MAJOR:
            return nm
    return names[0] if names else "?"


_HEADERS = {}


def except_header_lines(code):
    """Lines that only test an exception against a class (`except X as e:` headers).  CPython runs Python-level signal
    handlers at calls, loop back-edges and function entries only; a header line that is reached by an exception in flight
    contains none of these, so no handler can run there - it is not a point of the run."""
    got = _HEADERS.get(code)
    if got is None:
        import dis
        per = {}
        for ins in dis.get_instructions(code):
            ln = ins.positions.lineno if ins.positions else None
            if ln is not None:
                per.setdefault(ln, []).append(ins.opname)
        got = frozenset(ln for ln, ops in per.items()
                        if "CHECK_EXC_MATCH" in ops and not any(o.startswith(("CALL", "JUMP_BACKWARD", "RESUME", "SEND", "FOR_ITER", "BEFORE_WITH",
                                                                              "WITH_EXCEPT_START", "IMPORT", "BINARY", "COMPARE", "CONTAINS",
                                                                              "GET_ITER", "FORMAT", "STORE_ATTR", "STORE_SUBSCR", "DELETE")) for o in ops))
        _HEADERS[code] = got
    return got


class Injector:
    """Counts injection points; at point k calls the registered handler."""

    def __init__(self, k=None, sig=signal.SIGINT):
        self.k = k
        self.sig = sig
        self.n = 0
        self.armed = False
        self.kept_waiting = None
        self.fired = None     # (where, t)
        self.kernel = None
        self.site = "blocked-read"
        self.env = crash.EnvLoops()

    def _armed(self):
        if not self.armed:
            # injection starts once Conductor's handler for the injected signal is in place (before that the
            # default disposition applies and no task exists yet)
            h = signal.getsignal(self.sig)
            if getattr(h, "__module__", "") == "conductor.errors.signal":
                self.armed = True
        return self.armed

    def point(self, where, frame):
        if self.fired is not None or not self._armed():
            return
        i = self.n
        self.n += 1
        if self.k is not None and i == self.k:
            h = signal.getsignal(self.sig)
            running = [p.pid for p in self.kernel.running()] if self.kernel else []
            inflight = sys.exception()
            if isinstance(inflight, (symx.PathAbort, symx.Cut, symx.Inconclusive)):
                self.n -= 1          # the engine is unwinding this path: not a point of the program
                return
            if inflight is not None:
                where = "%s [while %r was propagating]" % (where, inflight)
            self.fired = (where, self.kernel.t if self.kernel else 0, running)
            h(self.sig, frame)

    def local(self, frame, event, arg):
        if event == "line":
            if self.env.skip(frame):
                return self.local
            if sys.exception() is not None and frame.f_lineno in except_header_lines(frame.f_code):
                return self.local
            if self.k is None or self.n == self.k:
                code = frame.f_code
                where = "%s:%s:%d" % (code.co_filename[len(SRC):] if code.co_filename.startswith(SRC) else "user-code-run-by-" +
                                      frame.f_back.f_code.co_qualname, code.co_qualname, frame.f_lineno)
                self.site = site_of(frame)
            else:
                where = None
            self.point(where, frame)
        return self.local

    def glob(self, frame, event, arg):
        fn = frame.f_code.co_filename
        if fn.startswith(SRC):
            self.env.entered(frame)
            return self.local
        if fn == "<string>" and frame.f_back is not None and frame.f_back.f_code.co_filename == LOADER:
            # the user's own COND / included code, executed by the task loader: part of planning
            return self.local
        return None

    def on_block(self, kernel, fd):
        # cond is about to block waiting for a child.  If the signal has already arrived, every task that was running then
        # must have been sent SIGTERM by now: going back to sleep until a task ends by itself is "keeps waiting silently".
        if self.fired is not None and self.kept_waiting is None:
            sigterm = int(signal.SIGTERM)
            w = [kernel.procs[pid].name for pid in self.fired[2]
                 if kernel.procs[pid].state == "run" and not any(s == sigterm for _, s in kernel.procs[pid].killed)]
            if w:
                self.kept_waiting = w
        self.point("blocked-read", None)


class FixedSched(fakeos.Sched):
    """Statuses decided up front (bad bits), completion order by choose."""

    def __init__(self, g, specs, bad, calls, replay=None):
        self.g, self.specs, self.bad, self.calls = g, specs, bad, calls
        self.k = 0
        self.rc = {}
        self.replay = replay        # completion order of the fault-free run of this path (the run with the fault follows it)

    def on_spawn(self, kernel, proc):
        hrun.snapshot_on_spawn(kernel, proc)
        graphs.output_writer(kernel, proc)

    def pick_exit(self, kernel, running):
        if len(running) == 1:
            return running[0]
        self.k += 1
        name = "x%d" % self.k
        if self.replay is not None and self.k <= len(self.replay) and self.replay[self.k - 1] < len(running):
            return running[self.replay[self.k - 1]]
        v = self.g.choose(name, len(running))
        self.calls.append((name, len(running), v))
        return running[v]

    def status_for(self, kernel, proc):
        rc = 3 if proc.name in self.bad else 0
        self.rc[proc.pid] = rc
        return fakeos.StatusExited(rc)


INCLUDED = "A = 1\nB = [i * 2 for i in range(2)]\nC = {'k': A}\n"


def run_once(g, specs, root, jobs, bad, inj, calls, stop_early=False, replay=None, include=False):
    import conductor.cli.run as cli_run
    proj = hrun.Project()
    if include:
        proj.write("common.cond", INCLUDED)
        proj.write_tasks(specs, prelude="include('//common.cond')\n")
    else:
        proj.write_tasks(specs)
    sched = FixedSched(g, specs, bad, calls, replay=replay)
    kernel = fakeos.Kernel(sched, clock=fakeos.Clock())
    kernel.on_block = inj.on_block
    inj.kernel = kernel
    ns = hrun.run_ns(task_identifier=specs[root].ident, again=True, jobs=jobs, stop_early=stop_early)

    def traced(ns):
        old = sys.gettrace()
        sys.settrace(inj.glob)
        try:
            return cli_run.main(ns)
        finally:
            sys.settrace(old)
    # Finalisers of garbage left by EARLIER runs (aborted runs leave cycles through tracebacks) must not run inside this
    # run: their lines would be counted as points of it, at places that depend on the allocator.  Collect outside, and keep
    # the cycle collector off while the run is traced (objects of this run are still finalised by reference counting).
    _RUNS[0] += 1
    if _RUNS[0] % 8 == 0:
        gc.collect()
    was = gc.isenabled()
    gc.disable()
    try:
        res = hrun.invoke(traced, ns, str(proj.root), kernel)
    finally:
        if was:
            gc.enable()
    res.proj = proj
    res.sched = sched
    return res


def make(n, kinds, jobs_hi, sigterm_bit=True, orders="rev", include=False):
    def fn(g):
        specs = graphs.sym_graph(g, n, kinds, orders=orders)
        root = n - 1
        jobs = g.choose("jobs", jobs_hi) + 1
        bad = {s.name for j, s in enumerate(specs) if s.kind in hrun.SUBPROCESS_KINDS and g.flag("bad%d" % j)}
        sig = signal.SIGTERM if (sigterm_bit and g.flag("sigterm")) else signal.SIGINT
        D = graphs.describe(specs) + ["jobs=%d bad=%s sig=%s" % (jobs, sorted(bad), sig.name)]
        # 1. the same path without a fault: number of injection points L (cached per scenario)
        L = None
        if g.symbolic:
            key = (tuple(g.outcomes()), tuple(D))
            for calls, l in _LCACHE.get(key, []):
                tail = g.decisions[g.pos:g.pos + len(calls)]
                if len(tail) == len(calls) and all(d.i < len(d.alts) and d.outcome == c[2] for d, c in zip(tail, calls)):
                    for name, cnt, _ in calls:
                        g.choose(name, cnt)
                    L = l
                    order = [c[2] for c in calls]
                    break
        if L is None:
            calls = []
            base = Injector(k=None)
            r0 = run_once(g, specs, root, jobs, bad, base, calls, include=include)
            r0.proj.cleanup()
            L = base.n
            order = [c[2] for c in calls]
            if g.symbolic:
                if len(_LCACHE) > 64:
                    _LCACHE.clear()
                _LCACHE.setdefault(key, []).append((calls, L))
            if isinstance(r0.status, str):
                g.require(False, "run:crash:" + r0.status, "fault-free run died: %r %s" % (r0.exc, D))
        g.note("L", L)
        # k in two levels so that one shard is a block of 64 consecutive points
        # one extra block beyond the measured count: if point numbers ever differ between two runs of the same scenario
        # the tail of the run is still visited, and a run that has more than L + 63 points is reported as inconclusive
        nblocks = (max(L, 1) + 63) // 64 + 1
        kb = g.choose("kb", nblocks)
        g.shard_point()
        k = kb * 64 + g.choose("ko", 64)
        frac = getattr(g, "preset", {}).get("kfrac") if g.symbolic else None
        if frac is not None:
            k = (k + (int(L * frac) // 64) * 64) % max(L, 1)      # canaries start in the middle of the run
        # 2. the run with the signal at point k
        inj = Injector(k=k, sig=sig)
        res = run_once(g, specs, root, jobs, bad, inj, [], replay=order, include=include)
        try:
            if inj.fired is None:
                return {"nontrivial": False, "sample": None}
            if k >= L + 32:
                raise symx.Inconclusive("point numbering is not stable: the fault-free run had %d points, an identical run reached point %d at %s; order=%s events=%s" % (
                    L, k, inj.fired[0], order, [e[:4] for e in res.kernel.events if e[0] in ("spawn", "exit", "reap")]))
            where, t_inj, running_at = inj.fired
            func = inj.site if where != "blocked-read" else "blocked-read"
            kern = res.kernel
            ctxt = "signal %s at point %d/%d (%s); %s" % (sig.name, k, L, where, D)
            # (a) every started, not yet reaped process group gets SIGTERM
            g.require(inj.kept_waiting is None, "abort:kept-waiting-without-terminating@" + func,
                      "after the signal cond blocked again waiting for a child although %s was still running and had not been sent SIGTERM "
                      "(the task then runs to its natural end); %s" % (inj.kept_waiting, ctxt))
            for pid in running_at:
                p = kern.procs[pid]
                got = [t for t, s in p.killed if s == int(signal.SIGTERM) and t >= t_inj]
                g.require(bool(got) or p.state == "reaped", "abort:running-task-not-terminated@" + func,
                          "%s (pid %d) was running and never received SIGTERM; %s" % (p.name, pid, ctxt))
            for pid in running_at:
                p = kern.procs[pid]
                g.require(p.state != "run", "abort:task-survives-the-abort@" + func,
                          "%s (pid %d) is still running after cond exited: SIGTERM was sent but blocked by the signal mask the "
                          "task inherited (%s); %s" % (p.name, pid, sorted(getattr(p, "blocked", ())), ctxt))
            for p in kern.tasks():
                if p.pid not in running_at and p.state == "run" and p.t_spawn >= t_inj:
                    # spawned after the signal arrived (the abort was swallowed or ignored)
                    g.require(bool(p.killed), "abort:task-started-after-abort@" + func,
                              "%s started after the signal and left running; %s" % (p.name, ctxt))
            # (b) nothing unfinished is recorded
            ok_names = {p.name for p in kern.tasks() if p.state == "reaped" and res.sched.rc.get(p.pid) == 0}
            for row in res.proj.index_rows():
                nm = row[0].split(":")[-1]
                g.require(nm in ok_names, "abort:version-recorded-for-unfinished-task@" + func,
                          "row %s but the task never exited 0; %s" % (row, ctxt))
                # ... and what is recorded keeps its output (an abort must not clean up a finished, recorded version)
                d = res.proj.out / ("%s.task.%d" % (nm, row[1]))
                g.require(d.is_dir() and (d / "result.txt").is_file(), "abort:recorded-version-lost-its-output@" + func,
                          "row %s is recorded but %s is missing or incomplete after the abort; %s" % (row, d.name, ctxt))
            # (c) exits non-zero, reporting the abort, not an internal error
            if isinstance(res.status, str):
                g.require(False, "abort:internal-error:%s@%s" % (res.status[4:], func),
                          "cond died with %r instead of reporting the abort; %s" % (res.exc, ctxt))
            g.require(res.status != 0, "abort:swallowed@" + func,
                      "the signal was ignored: cond exited 0; stderr=%r; %s" % (res.err[-200:], ctxt))
            g.require(res.status == 1 and "aborted by the user" in res.err,
                      "abort:not-reported@" + func, "status=%r stderr=%r; %s" % (res.status, res.err[-300:], ctxt))
            if len(running_at) >= 3:
                g.goal("signal with three tasks in flight")
            if len(running_at) >= 2:
                g.goal("signal with two tasks in flight")
            if len(running_at) == 1:
                g.goal("signal with one task in flight")
            if where == "blocked-read":
                g.goal("signal while blocked waiting for a child")
            if not running_at and bad and kern.tasks() and all(p.t_exit is not None and p.t_exit <= t_inj for p in kern.tasks()) \
                    and "propagating" in where:
                g.goal("signal while the failure of a task is being reported")
            if "planner" in where:
                g.goal("signal during planning")
            if "user-code-run-by-TaskLoader._run_include" in where:
                g.goal("signal while an included file is being evaluated")
            if "user-code-run-by-TaskLoader.parse_cond_file" in where:
                g.goal("signal while a COND file is being evaluated")
            if "finish_execution" in where:
                g.goal("signal while finishing a task")
            return {"nontrivial": bool(running_at),
                    "sample": {"tasks": D, "point": where, "k": k, "L": L, "running": running_at, "status": res.status}}
        finally:
            res.proj.cleanup()
    return fn


CHAIN2 = {"e0_1": True}
GOALS = ["signal with two tasks in flight", "signal with one task in flight", "signal while blocked waiting for a child",
         "signal during planning", "signal while finishing a task"]


_WARM = [False]


def _warm():
    """Import everything a run imports (module-level lines would otherwise be
    counted as injection points in the first run of a process only)."""
    if _WARM[0]:
        return
    _WARM[0] = True
    from vlib.symx import ConcreteEngine
    import tempfile, shutil
    old = hrun.SCRATCH_BASE
    d = tempfile.mkdtemp(prefix="verif-warm-", dir=old if os.path.isdir(old) else None)
    hrun.SCRATCH_BASE = d
    try:
        g = ConcreteEngine({"e0_1": True})
        specs = graphs.sym_graph(g, 2, ("run_experiment",))
        r = run_once(g, specs, 1, 1, set(), Injector(k=None), [])
        r.proj.cleanup()
    finally:
        hrun.SCRATCH_BASE = old
        shutil.rmtree(d, ignore_errors=True)


def spaces(tier):
    _warm()
    sp = [Space("par3-j2", make(3, ("run_experiment", "run_command"), 2, sigterm_bit=False),
                "3 tasks: t0 (experiment), t1 (command) independent and parallelizable, t2 (experiment) depends on both; "
                "--jobs 2; SIGINT at every executed line of conductor.* and every blocked read; all children succeed",
                depth="marker", goals=GOALS,
                preset={"e0_1": False, "e0_2": True, "e1_2": True, "rev2": False, "p0": True, "p1": True, "p2": False,
                        "bad0": False, "bad1": False, "bad2": False, "k0": 0, "k1": 1, "k2": 0, "jobs": 1},
                outside=["N>3", "jobs>2", "bytecode granularity", "points inside library calls"]),
          Space("chain2-seq-fail", make(2, ("run_experiment",), 1, sigterm_bit=True),
                "2 sequential experiments t0 <- t1, t0 may fail, SIGINT or SIGTERM at every point", depth="marker",
                goals=["signal while the failure of a task is being reported"],
                preset={"e0_1": True, "p0": False, "p1": False, "bad1": False})]
    sp.append(Space("chain2-include", make(2, ("run_experiment",), 1, sigterm_bit=True, include=True),
                    "2 sequential experiments t0 <- t1 in a COND file that include()s a .cond file of three statements; SIGINT or SIGTERM at every "
                    "executed line, including the lines of the user's COND file and of the included file (run by the task loader)", depth="marker",
                    goals=["signal while an included file is being evaluated", "signal while a COND file is being evaluated"],
                    preset={"e0_1": True, "p0": False, "p1": False, "bad0": False, "bad1": False}))
    sp.append(Space("par4-j3", make(4, ("run_experiment", "run_command"), 3, sigterm_bit=False),
                    "4 tasks: t0, t1, t2 independent and parallelizable (command, experiment, command), t3 (experiment) depends on all "
                    "three; --jobs 3; SIGINT at every executed line and every blocked read", depth="marker",
                    goals=["signal with three tasks in flight"],
                    preset={"e0_1": False, "e0_2": False, "e1_2": False, "e0_3": True, "e1_3": True, "e2_3": True, "rev3": False, "rev2": False,
                            "p0": True, "p1": True, "p2": True, "p3": False, "bad0": False, "bad1": False, "bad2": False, "bad3": False,
                            "k0": 1, "k1": 0, "k2": 1, "k3": 0, "jobs": 2}))
    if tier == "thorough":
        sp.append(Space("par3-j12-kinds", make(3, ("run_experiment", "run_command"), 2, sigterm_bit=False),
                        "par3 shape with every kind vector over {experiment, command}, jobs 1..2, SIGINT at every point",
                        depth="marker", tiers=("thorough",),
                        preset={"e0_1": False, "e0_2": True, "e1_2": True, "rev2": False, "p0": True, "p1": True, "p2": False,
                                "bad0": False, "bad1": False, "bad2": False}))
        sp.append(Space("chain2-seq-fail-sigterm", make(2, ("run_experiment",), 1),
                        "2 sequential experiments t0 <- t1, each may fail, SIGINT or SIGTERM at every point", depth="marker",
                        tiers=("thorough",), preset={"e0_1": True, "p0": False, "p1": False}))
        sp.append(Space("n2-all", make(2, graphs.ALL_KINDS, 2, sigterm_bit=False),
                        "N=2, all kinds, edges, par bits, jobs 1..2, failing bits, SIGINT at every point", depth="marker",
                        tiers=("thorough",)))
        sp.append(Space("n3-exp-cmd-exp-j2", make(3, ("run_experiment", "run_command"), 2, sigterm_bit=False),
                        "N=3, kinds (experiment, command, experiment), every edge set, par bits, jobs 1..2, all children succeed, SIGINT at every point",
                        depth="marker", tiers=("thorough",),
                        preset={"k0": 0, "k1": 1, "k2": 0, "bad0": False, "bad1": False, "bad2": False}))
    return sp


def canaries(tier):
    P = {"e0_1": False, "e0_2": True, "e1_2": True, "rev2": False, "p0": True, "p1": True, "p2": False,
         "bad0": False, "bad1": False, "bad2": False, "k0": 1, "k1": 1, "k2": 1, "jobs": 1, "kfrac": 0.5}
    return [
        Canary("terminate-processes-does-nothing",
               lambda: rewrite("conductor.execution.executor", "_InflightOperations.terminate_processes",
                               "os.killpg(group_id, signal.SIGTERM)", "pass"),
               space="par3-j2", preset=P, max_paths=3000),
    ]
