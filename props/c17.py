"""C17 - commands behave the same from any directory inside the project.

Differential: two identical projects in the same state; the same command line
(through the real argument parser) is run from the project root in one and
from another directory in the other; exit status, effects on cond-out, index
rows and reported locations (resolved against the working directory) must be
equal.  Outside a project every command must fail with the missing-root error.
All inputs are finite choices; the solver only prunes.
"""
import os
import re
import shutil

from vlib import fakeos, graphs, hrun
from vlib.runner import Space, Canary, rewrite

ID = "C17"
LEVEL = "exploration"
SOLVER_SHARE = "low"
RULE = ("one case = (project state, subcommand + flags, working directory); non-trivial = the working directory is not "
        "the project root and the command touches or reports a location")
TRUSTED = ["fake kernel contract (DESIGN 4) for task children; real tar, tmpfs, sqlite", "reference run from the project root"]
ASSUMPTIONS = ["one invocation at a time", "the clock is the same for both runs"]

STATES = ("fresh", "after-successful-run", "after-failed-run", "after-two-failed-runs", "eighteen-recorded-versions", "leftover-colliding-with-the-archive")
# "vendor" is a nested repository (has its own .git) inside the project; the last two are leftover output
# directories of failed runs (they exist only in the corresponding states; gc deletes them while running there)
CWDS = ("pkg", "docs", "cond-out", "cond-out/pkg", "pkg/sub", "pkg/sub/a/b/c/d/e/f", "vendor", "vendor/lib", "cond-out/pkg/t.task.500", "cond-out/pkg/t.task.501")
COMMANDS = (
    ("run", "//pkg:t"), ("run", "--check", "//pkg:t"), ("run", "--again", "//pkg:t"), ("run", "--this-commit", "//pkg:t"),
    ("run", "--at-least", "HEAD", "//pkg:t"), ("where", ":c"), ("where", "-f", ":c"), ("run", "--check", ":c"),
    ("where", "//pkg:t"), ("where", "-p", "//pkg:t"), ("where", "-f", "//:c"), ("where", "-p", "-f", "//:c"),
    ("gc",), ("gc", "-n"), ("gc", "-v"), ("gc", "-n", "-v"),
    ("archive", "-o", "@ARCH"), ("archive", "//pkg:t", "-l", "-o", "@ARCH"),
    ("restore", "@OTHER"),
    ("clean", "-f"),
)
COND_ROOT = "run_command(name='c', run='true')\n"
COND_PKG = "run_experiment(name='t', run='./exp.sh', deps=['//:c'])\n"


HEAD_PROJECT = "aa" * 20
HEAD_VENDOR = "ee" * 20


class Sch(fakeos.Sched):
    def __init__(self, fail):
        self.fail = fail

    def git(self, kernel, argv, cwd):
        """The project is a git repository with one commit; vendor/ is another repository with another commit.
        Answers depend on the directory git is run in, as the real git's do."""
        in_vendor = (os.sep + "vendor") in cwd
        head = HEAD_VENDOR if in_vendor else HEAD_PROJECT
        if argv[:2] == ["rev-parse", "--git-dir"]:
            return ".git\n", 0
        if argv[0] == "rev-parse":
            sym = argv[-1].split("^")[0]
            if sym in ("HEAD", head):
                return head + "\n", 0
            return "", 128
        if argv[:2] == ["diff-index", "--quiet"]:
            return "", 0
        if argv[:2] == ["merge-base", "--is-ancestor"] and len(argv) == 4:
            if argv[2] == head and argv[3] == head:
                return "", 0
            return "", 128 if (argv[2] != head or argv[3] != head) else 1
        if argv[:2] == ["rev-list", "--count"]:
            return "0\n", 0
        return "", 128

    def on_spawn(self, kernel, proc):
        hrun.snapshot_on_spawn(kernel, proc)
        graphs.output_writer(kernel, proc)

    def status_for(self, kernel, proc):
        return fakeos.StatusExited(3 if (self.fail and proc.name == "t") else 0)


def build(state, base):
    proj = hrun.Project(scratch_root=base, config="")
    proj.write("COND", COND_ROOT)
    proj.write("pkg/COND", COND_PKG)
    (proj.root / "docs").mkdir()
    (proj.root / "pkg" / "sub" / "a" / "b" / "c" / "d" / "e" / "f").mkdir(parents=True)
    (proj.root / "vendor" / ".git").mkdir(parents=True)
    (proj.root / "vendor" / ".git" / "HEAD").write_text("ref: refs/heads/main\n")
    (proj.root / "vendor" / "lib").mkdir()
    proj.out.mkdir()
    (proj.out / "pkg").mkdir()
    if state == "leftover-colliding-with-the-archive":
        # what a killed restore of the other archive leaves: the directory of its LAST version, not recorded
        d_ = proj.out / "pkg" / "t.task.78"
        d_.mkdir()
        (d_ / "partial.txt").write_text("copied before the kill")
        return proj
    if state == "eighteen-recorded-versions":
        for n in range(18):
            proj.add_version("//pkg:t", 300 + n)
        return proj
    if state != "fresh":
        for n in range(2 if state == "after-two-failed-runs" else 1):
            k = fakeos.Kernel(Sch(fail=(state != "after-successful-run")), clock=fakeos.Clock(lambda i, n=n: 500.0 + n))
            r = hrun.invoke_argv(["run", "//pkg:t"], str(proj.root), k)
            assert r.status in (0, 1), (r.status, r.exc)
    return proj


def make_other_archive(base):
    """An archive made elsewhere (same layout, other versions) to restore."""
    src = build("fresh", base)
    try:
        src.add_version("//pkg:t", 77)
        src.add_version("//pkg:t", 78)
        arch = os.path.join(base, "other-%s.tar.gz" % os.path.basename(str(src.root)))
        r = hrun.invoke_argv(["archive", "-o", arch], str(src.root), fakeos.Kernel(fakeos.Sched()))
        assert r.status == 0, (r.status, r.err)
        return arch
    finally:
        src.cleanup()


def observe(proj, argv, cwd, base, tag):
    arch = os.path.join(base, "arch-%s-%s.tar.gz" % (tag, os.path.basename(str(proj.root))))
    other = None
    if "@OTHER" in argv:
        other = make_other_archive(base)
    real = [arch if a == "@ARCH" else (other if a == "@OTHER" else a) for a in argv]
    k = fakeos.Kernel(Sch(fail=False), clock=fakeos.Clock(lambda i: 900.0))
    res = hrun.invoke_argv(real, cwd, k)
    root = str(proj.root)
    locs = []
    for line in res.out.split("\n"):
        m = re.match(r"^(Would delete|Deleting) (.*)$", line)
        if m:
            locs.append((m.group(1), os.path.relpath(os.path.normpath(os.path.join(os.path.realpath(cwd), m.group(2))), os.path.realpath(root))))
        m = re.match(r"^✨ Done! Archive saved as (.*)$", line)
        if m:
            locs.append(("archive", os.path.normpath(os.path.join(os.path.realpath(cwd), m.group(1))) == os.path.realpath(arch)))
    if argv[0] == "where" and res.status == 0:
        p = res.out.strip().split("\n")[-1]
        locs.append(("where", p.replace(root, "<root>")))
    obs = {"status": res.status, "error": res.error_class, "locations": sorted(locs),
           "cond_out": {k_: v for k_, v in hrun.tree_digest(proj.out).items() if not k_.endswith(".sqlite")},
           "rows": proj.index_rows(), "spawned": sorted(p.name for p in k.tasks()),
           "archive_written": os.path.exists(arch)}
    for f in (arch, other):
        if f and os.path.exists(f):
            os.unlink(f)
    return obs, res


def make(all_via_link=False):
    def fn(g):
        state = STATES[g.choose("state", len(STATES))]
        argv = COMMANDS[g.choose("cmd", len(COMMANDS))]
        linked = ("", "pkg") if not all_via_link else ("",) + CWDS
        where = g.choose("cwd", len(CWDS) + 1 + len(linked))
        base = hrun.SCRATCH_BASE
        via_link = None
        if where > len(CWDS):
            # the same directories, entered through a symbolic link that lives outside the project ($PWD holds the link's path)
            via_link = linked[where - len(CWDS) - 1]
            where = CWDS.index(via_link) if via_link else CWDS.index("pkg")
        D = "state=%s argv=%s cwd=%s%s" % (state, list(argv), (CWDS[where] if via_link != "" else "<root>") if where < len(CWDS) else "<outside the project>",
                                         " entered through a symbolic link outside the project" if via_link is not None else "")
        if where == len(CWDS):
            outside = os.path.join(base, "outside-%d" % os.getpid())
            os.makedirs(outside, exist_ok=True)
            res = hrun.invoke_argv([a.replace("@ARCH", os.path.join(base, "x.tar.gz")).replace("@OTHER", os.path.join(base, "x.tar.gz")) for a in argv],
                                   outside, fakeos.Kernel(fakeos.Sched()))
            g.require(res.status == 1 and res.error_class == "MissingProjectRoot" and not res.kernel.tasks(), "cwd:outside-project-not-rejected",
                      "status=%r error=%s; %s" % (res.status, res.error_class, D))
            g.goal("command outside any project")
            return {"nontrivial": False, "sample": {"case": D, "error": res.error_class}}
        A = build(state, base)
        B = build(state, base)
        if not (B.root / CWDS[where]).is_dir():
            A.cleanup()
            B.cleanup()
            return {"nontrivial": False, "sample": None}      # this directory does not exist in this state
        try:
            ref, rres = observe(A, argv, str(A.root), base, "a")
            cwd_b = str(B.root / CWDS[where])
            if via_link is not None:
                alias = os.path.join(base, "alias of %s" % os.path.basename(str(B.root)))
                os.symlink(os.path.join(str(B.root), via_link) if via_link else str(B.root), alias)
                cwd_b = alias
            try:
                got, gres = observe(B, argv, cwd_b, base, "b")
            finally:
                if via_link is not None:
                    os.unlink(alias)
            for r in (rres, gres):
                # (a restore that runs into an unrecorded directory of the same name stops with FileExistsError on the
                # unchanged tree too: not this property's subject - only its effects are compared)
                if isinstance(r.status, str) and not (state == "leftover-colliding-with-the-archive" and argv[0] == "restore"):
                    g.require(False, "cwd:crash:%s:%s" % (r.status[4:], argv[0]), "%s; %s" % (r.exc, D))
            for key in ("status", "error", "locations", "cond_out", "rows", "spawned", "archive_written"):
                g.require(ref[key] == got[key], "cwd:differs:%s:%s" % (argv[0], key),
                          "%s from the root: %r; from %s: %r; %s" % (key, _short(ref[key]), CWDS[where], _short(got[key]), D))
            if ref["locations"]:
                g.goal("a location is reported from a sub-directory")
            if argv[0] in ("archive", "restore") and ref["status"] == 0:
                g.goal("archive/restore from a sub-directory succeeds")
            return {"nontrivial": bool(ref["locations"]) or ref["status"] == 0, "sample": {"case": D, "status": ref["status"], "locations": ref["locations"][:3]}}
        finally:
            A.cleanup()
            B.cleanup()
    return fn


def _short(x):
    s = repr(x)
    return s if len(s) < 300 else s[:300] + "..."


def spaces(tier):
    extra = [Space("commands-x-directories-all-through-links", make(all_via_link=True),
                   "as commands-x-directories, with EVERY directory also entered through a symbolic link outside the project", depth=3,
                   tiers=("thorough",))] if tier == "thorough" else []
    return extra[:0] + [Space("commands-x-directories", make(),
                  "%d command lines x 6 project states (one with 18 recorded versions, one with the leftover of a killed restore) x 10 directories inside the project (one of them 8 levels deep) (package dir, dir without COND, cond-out, "
                  "package dir under cond-out, nested sub-directory, a nested git repository and a directory below it, leftover "
                  "output directories of failed runs) + outside the project" % len(COMMANDS), depth=3,
                  goals=["command outside any project", "a location is reported from a sub-directory", "archive/restore from a sub-directory succeeds"],
                  outside=["explorer command"])] + extra


def canaries(tier):
    return [
        Canary("project-root-searched-in-cwd-only",
               lambda: rewrite("conductor.context", "Context.from_cwd", "for path in itertools.chain([here], here.parents):", "for path in [here]:")),
        Canary("gc-prints-paths-relative-to-project-root",
               lambda: rewrite("conductor.cli.gc", "main", 'print("Would delete", os.path.relpath(exp_path, cwd))',
                               'print("Would delete", os.path.relpath(exp_path, ctx.project_root))'),
               preset={"state": 2, "cmd": COMMANDS.index(("gc", "-n", "-v"))}),
    ]
