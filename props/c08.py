"""C08 - every experiment execution gets a fresh, unique version directory.

Two levels: (i) the real generate_new_output_version on unbounded symbolic
integers - recorded maximum and clock readings are free z3 Ints, no
monotonicity assumed - with the ordering obligations discharged by z3 on each
path; (ii) histories of up to three invocations (successful / failing runs,
gc) on the scratch file system with a symbolic clock (seconds in a 3 s window,
may stand still or step back), checking freshness and emptiness of the output
directory at spawn time and immutability of recorded versions.
"""
import argparse
import os

from vlib import fakeos, graphs, hrun, symx
from vlib.hrun import TaskSpec
from vlib.runner import Space, Canary, rewrite

ID = "C08"
LEVEL = "model_checking"
SOLVER_SHARE = "medium"
RULE = ("one case = one feasible path: (i) sign/equality pattern of two clock readings against the recorded maximum; "
        "(ii) a history of <=3 commands with its clock readings; non-trivial = two invocations share a clock second "
        "or the clock steps back")
TRUSTED = ["z3 (QF_LIA, unbounded integers for the generator)", "fake kernel contract (DESIGN 4)", "sqlite, tmpfs (real)"]
ASSUMPTIONS = ["one cond invocation at a time", "time.time() readings are integers-valued seconds inside the window for (ii)",
               "the task writes one file into COND_OUT and then exits"]


class Reading:
    """What time.time() returns: int() gives the symbolic second, differences are 0.0."""

    def __init__(self, sec):
        self.sec = sec

    def __int__(self):
        return self.sec if isinstance(self.sec, int) else int(self.sec)

    def __index__(self):
        return int(self)

    def __float__(self):
        return float(int(self))

    def __sub__(self, o):
        return 0.0

    def __rsub__(self, o):
        return 0.0


def generator_fn(g):
    """(i) generate_new_output_version alone, integers unbounded."""
    import time
    import conductor.execution.version_index as vi
    m = g.fresh_int("recorded_max", 0, None)
    t1 = g.fresh_int("clock1")
    t2 = g.fresh_int("clock2")
    readings = [t1, t2]
    real_time = time.time
    had_int = "int" in vars(vi)
    old_int = vars(vi).get("int")
    vi.int = lambda x: x              # keep the reading symbolic through int(time.time())
    time.time = lambda: readings.pop(0)
    try:
        try:
            idx = vi.VersionIndex(conn=None, last_timestamp=m, underlying_db_path=None)
        except TypeError as ex:
            return {"nontrivial": False, "sample": {"stale": "VersionIndex constructor changed: %s" % ex}}
        v1 = idx.generate_new_output_version(commit=None)
        v2 = idx.generate_new_output_version(commit=None)
    finally:
        time.time = real_time
        if had_int:
            vi.int = old_int
        else:
            del vi.int
    a, b = v1.timestamp, v2.timestamp
    g.require(a > m, "version:not-greater-than-recorded", "first id %s vs recorded maximum %s" % (a, m))
    g.require(b > a, "version:not-strictly-increasing", "second id %s after first %s" % (b, a))
    g.require(b > m, "version:not-greater-than-recorded", "second id %s vs recorded maximum %s" % (b, m))
    if bool(t1 == t2):
        g.goal("two readings within one second")
    if bool(t2 < t1):
        g.goal("clock steps back")
    return {"nontrivial": True, "sample": {"recorded_max": str(m), "clock": [str(t1), str(t2)], "ids": [str(a), str(b)]}}


FS_BOUND = {False: 8, True: 16}
SQL_BOUND = {False: 6, True: 12}
OPS = ("run-ok", "run-fail", "gc", "restore-old", "restore-future", "restore-own")


def make_history(nops, ops=OPS, window=3, fault=None, fault_bound=0):
    """fault: None | "fs" | "sql" - in the LAST invocation at most one injected failure (vlib.faults), its position a decision
    variable; an invocation that fails because of the fault is an ordinary failed invocation, everything else must hold."""
    def fn(g):
        from vlib import faults
        import conductor.cli.run as cli_run
        import conductor.cli.gc as cli_gc
        proj = hrun.Project()
        try:
            proj.write_tasks([TaskSpec("e", "run_experiment", [], run="./exp.sh"), TaskSpec("d", "run_command", [":e"])])
            hist = []
            recorded = {}          # path -> digest at the time it was recorded
            n = g.choose("nops", nops) + 1
            secs = []
            maxcalls = [0]
            for i in range(n):
                op = ops[g.choose("op%d" % i, len(ops))]
                sec = g.fresh_int("sec%d" % i, 100, 100 + window - 1, opaque=False)
                sec_c = int(sec)
                secs.append(sec_c)
                before = set(os.listdir(proj.out)) if proj.out.exists() else set()
                rows_before = proj.index_rows()
                spawned = {}
                flt = None
                if fault and i == n - 1:
                    k = g.choose("fault_at", fault_bound + 1)
                    flt = faults.OneFault(k, proj.out) if fault == "fs" else faults.OneSqlFault(k)

                def wrapf(f, flt=flt):
                    return faults.with_faults(f, flt) if flt is not None else f

                def on_spawn(kernel, proc, spawned=spawned):
                    hrun.snapshot_on_spawn(kernel, proc)
                    spawned[proc.name] = proc
                    out = proc.env.get("COND_OUT")
                    if out and os.path.isdir(out):
                        with open(os.path.join(out, "result-%d.txt" % i), "w") as fh:
                            fh.write("invocation %d\n" % i)

                class S(fakeos.Sched):
                    def on_spawn(self, kernel, proc):
                        on_spawn(kernel, proc)

                    def status_for(self, kernel, proc):
                        return fakeos.StatusExited(3 if (op == "run-fail" and proc.name == "e") else 0)
                kern = fakeos.Kernel(S(), clock=lambda: Reading(sec_c))
                if op == "restore-own":
                    # archive the project's own recorded versions and restore them on top of themselves: must be refused
                    # without touching anything
                    arch = os.path.join(hrun.SCRATCH_BASE, "c08-own-%s.tar.gz" % os.path.basename(str(proj.root)))
                    ra = hrun.invoke_argv(["archive", "-o", arch], str(proj.root), fakeos.Kernel(fakeos.Sched()))
                    if ra.status == 0:
                        res = hrun.invoke_argv(["restore", arch], str(proj.root), kern)
                        g.require(res.status != 0, "restore:recorded-version-restored-again", "restore of already recorded versions exited 0; history %s" % (hist + [(op, sec_c)],))
                        os.unlink(arch)
                    else:
                        res = ra          # nothing recorded yet: nothing to archive
                elif op.startswith("restore"):
                    # an archive made elsewhere whose version is older / ahead of this machine's clock
                    ts = (40 + i) if op == "restore-old" else (400 + i)
                    src = hrun.Project()
                    try:
                        src.write_tasks([TaskSpec("e", "run_experiment", [], run="./exp.sh")])
                        src.add_version("//:e", ts)
                        arch = os.path.join(hrun.SCRATCH_BASE, "c08-%s.tar.gz" % os.path.basename(str(src.root)))
                        ra = hrun.invoke_argv(["archive", "-o", arch], str(src.root), fakeos.Kernel(fakeos.Sched()))
                        assert ra.status == 0, (ra.status, ra.err)
                    finally:
                        src.cleanup()
                    res = hrun.invoke_argv(["restore", arch], str(proj.root), kern)
                    os.unlink(arch)
                elif op == "gc":
                    res = hrun.invoke(wrapf(cli_gc.main), argparse.Namespace(dry_run=False, verbose=False, debug=False), str(proj.root), kern)
                else:
                    res = hrun.invoke(wrapf(cli_run.main), hrun.run_ns(task_identifier="//:d", again=True), str(proj.root), kern)
                fired = flt.fired if flt is not None else None
                if flt is not None:
                    maxcalls[0] = max(maxcalls[0], flt.n)
                    if fired:
                        g.goal("injected fault fired")
                hist.append((op, sec_c) + ((("fault", fired),) if fired else ()))
                H = "history %s" % (hist,)
                if isinstance(res.status, str) and not (fired and res.status in ("exc:OSError", "exc:PermissionError", "exc:OperationalError")):
                    g.require(False, "history:crash:" + res.status, "%r; %s" % (res.exc, H))
                if "e" in spawned:
                    p = spawned["e"]
                    out = p.env["COND_OUT"]
                    vid = int(out.rsplit(".", 1)[1])
                    g.require(all(vid > r[1] for r in rows_before), "version:not-greater-than-recorded",
                              "execution got version %d, recorded %s; %s" % (vid, [r[1] for r in rows_before], H))
                    g.require(os.path.basename(out) not in before, "version:dir-reuse",
                              "the execution was given %s, which existed before this invocation (left by an earlier, unrecorded "
                              "execution); %s" % (os.path.basename(out), H))
                    listing = [x for x in (p.snapshot.get("out_listing") or []) if x not in ("stdout.log", "stderr.log")]
                    g.require(not listing, "version:dir-not-empty-at-start",
                              "output directory already contained %s when the command started; %s" % (listing, H))
                    new_rows = [r for r in proj.index_rows() if r not in rows_before]
                    if op == "run-ok" and fired:
                        g.require([r[1] for r in new_rows] in ([], [vid]), "version:recorded-id-differs-from-directory-written",
                                  "the execution wrote %s but the index recorded %s; %s" % (os.path.basename(out), [r[1] for r in new_rows], H))
                    elif op == "run-ok":
                        g.require([r[1] for r in new_rows] == [vid], "version:recorded-id-differs-from-directory-written",
                                  "the execution wrote %s but the index recorded %s; %s" % (os.path.basename(out), [r[1] for r in new_rows], H))
                    else:
                        g.require(not new_rows, "version:recorded-for-failed-run", "%s; %s" % (new_rows, H))
                # recorded versions are immutable
                for path, dig in recorded.items():
                    g.require(hrun.tree_digest(path) == dig, "version:recorded-directory-modified",
                              "%s changed or disappeared during %s; %s" % (os.path.basename(path), op, H))
                for r in proj.index_rows():
                    path = str(proj.out / ("e.task.%d" % r[1]))
                    if path not in recorded:
                        g.require(os.path.isdir(path), "version:recorded-without-directory", "%s; %s" % (path, H))
                        recorded[path] = hrun.tree_digest(path)
                if op == "gc" and not fired:
                    left = [x for x in os.listdir(proj.out) if x.startswith("e.task.") and str(proj.out / x) not in recorded]
                    g.require(not left, "gc:left-unrecorded-output", "%s; %s" % (left, H))
            if len(set(secs)) < len(secs):
                g.goal("two invocations within one clock second")
            if any(secs[i + 1] < secs[i] for i in range(len(secs) - 1)):
                g.goal("clock steps back between invocations")
            if any(h[0] == "run-fail" for h in hist[:-1]) and hist[-1][0] != "gc":
                g.goal("run after a failed run")
            return {"nontrivial": len(set(secs)) < len(secs) or any(secs[i + 1] < secs[i] for i in range(len(secs) - 1)),
                    "sample": {"history": hist, "recorded": sorted(os.path.basename(p) for p in recorded)}}
        finally:
            proj.cleanup()
    return fn


def spaces(tier):
    sp = [Space("generator-unbounded", generator_fn,
                "generate_new_output_version called twice; recorded maximum >= 0 and both clock readings are unbounded "
                "integers, no monotonicity", depth=3, goals=["two readings within one second", "clock steps back"]),
          Space("history-3", make_history(3),
                "<=3 invocations from {successful run, failing run, gc, restore of an archive with an older / a future version, restore of the project's own archive}; each invocation's clock second symbolic in a 3 s "
                "window (may repeat or step back)", depth=5,
                goals=["two invocations within one clock second", "clock steps back between invocations", "run after a failed run"],
                outside=["concurrent invocations", "more than 3 invocations"])]
    sp.append(Space("history-2-fs-fault", make_history(2, ops=("run-ok", "run-fail", "gc"), window=2, fault="fs", fault_bound=FS_BOUND[tier == "thorough"]),
                    "<=2 invocations from {successful run, failing run, gc}, clock second symbolic in a 2 s window; in the last invocation at "
                    "most one file-system call made on behalf of Conductor under cond-out (listdir, scandir, mkdir, rmdir, open, symlink, "
                    "unlink, replace, rename, copyfile) fails with EACCES - which one (the k-th, k <= %d) is a decision variable" % FS_BOUND[tier == "thorough"],
                    depth=5, goals=["injected fault fired", "two invocations within one clock second"],
                    outside=["more than one fault per invocation", "errno values other than EACCES", "faults of stat/lstat and of file reads/writes"]))
    sp.append(Space("history-2-sql-fault", make_history(2, ops=("run-ok", "run-fail", "restore-future"), window=2, fault="sql", fault_bound=SQL_BOUND[tier == "thorough"]),
                    "<=2 invocations from {successful run, failing run, restore of an archive with a future version}; in the last invocation at most one SQL "
                    "statement of the version index fails with OperationalError('database is locked') - which one (k <= %d) is a decision variable" % SQL_BOUND[tier == "thorough"],
                    depth=5, goals=["injected fault fired"], outside=["more than one failing statement", "other sqlite errors"]))
    if tier == "thorough":
        sp.append(Space("history-4", make_history(4, window=4), "<=4 invocations, 4 s window", depth=6, tiers=("thorough",)))
    return sp


def canaries(tier):
    return [
        Canary("equal-timestamp-no-longer-bumps",
               lambda: rewrite("conductor.execution.version_index", "VersionIndex.generate_new_output_version",
                               "if timestamp == self._last_timestamp:\n        timestamp += 1",
                               "if timestamp == self._last_timestamp:\n        pass"),
               space="generator-unbounded"),
        Canary("gc-never-run-history-reuses-dir",
               lambda: rewrite("conductor.task_types.run", "RunExperiment._create_new_version",
                               "output_path is None or not output_path.exists()", "True"),
               space="history-3", max_paths=600),
    ]
