"""C07 - task environment contract and a consistent dependency snapshot.

Real `cond run` over the fake kernel; graph, kinds, package layout, cache bits,
--again and the args/options decoration are solver choices.  At every spawn the
command line, cwd, COND_NAME, COND_OUT, COND_DEPS are compared with the
contract, and conductor.lib's functions are evaluated inside the task's
environment.
"""
import os
import pathlib
import re

from vlib import graphs, hrun
from vlib.runner import Space, Canary, rewrite, setattr_patch

ID = "C07"
LEVEL = "exploration"
SOLVER_SHARE = "low"
RULE = ("one case = (graph, listing order, kinds, package layout, cache bits, --again, args/options decoration); "
        "non-trivial = some spawned task has at least one dependency with an output directory")
TRUSTED = ["fake kernel contract (DESIGN 4)", "contract oracle in props/c07.py"]
ASSUMPTIONS = ["project root path contains no ':'", "args/options strings contain no whitespace or shell metacharacters",
               "all children exit 0, --jobs 1"]

LAYOUTS = (("", "", "", ""), ("a", "", "a/b", "a"), ("a/b", "a", "", "c"))
DECOR = (
    (None, None),
    (["x", 1, 2.5, True], {"k": "v", "flag": False, "n": 3}),
    ([], {"zeta": 1, "alpha": "two"}),
)


def render_args(args):
    return [("true" if a else "false") if isinstance(a, bool) else str(a) for a in (args or [])]


def render_opts(opts):
    return ["--%s=%s" % (k, ("true" if v else "false") if isinstance(v, bool) else str(v)) for k, v in (opts or {}).items()]


def lib_view(env):
    """What conductor.lib reports inside the task's environment."""
    import conductor.lib as lib
    old = dict(os.environ)
    try:
        os.environ.clear()
        os.environ.update(env)
        out = {}
        for name, f in (("out", lib.get_output_path), ("deps", lib.get_deps_paths), ("in_out", lambda: lib.in_output_dir("x/y.txt"))):
            try:
                out[name] = f()
            except Exception as ex:
                out[name] = "raised %r" % ex
        return out
    finally:
        os.environ.clear()
        os.environ.update(old)


def make(n, kinds, orders="rev"):
    def fn(g):
        specs = graphs.sym_graph(g, n, kinds, orders=orders, par=False)
        layout = LAYOUTS[g.choose("layout", len(LAYOUTS))]
        decor = g.choose("decor", len(DECOR))
        # two dependencies may carry the same task name in different packages
        same = (len(set(layout[:n])) == n) and g.flag("same_names")
        for j, s in enumerate(specs):
            s.pkg = layout[j]
            if same and j < n - 1:
                s.name = "data"
            if s.kind in hrun.SUBPROCESS_KINDS:
                a, o = DECOR[(decor + j) % len(DECOR)] if decor else (None, None)
                s.args, s.options = a, o
                s.run = "./tool.sh --mode fast"
        if same and any(s_.kind == "combine" and len(set(specs[i].name for i in s_.dep_idx)) < len(s_.dep_idx) for s_ in specs):
            return {"nontrivial": False, "sample": None}       # combine() forbids equally named dependencies (C15's subject)
        for s in specs:           # deps were rendered before packages were assigned
            s.deps = [(":%s" % specs[i].name) if specs[i].pkg == s.pkg else specs[i].ident for i in s.dep_idx]
        root = n - 1
        again = g.flag("again")
        has_version = set()
        if not again:
            has_version = {j for j, s in enumerate(specs) if s.kind == "run_experiment" and g.flag("c%d" % j)}
        views = {}

        def on_spawn(kernel, proc):
            graphs.output_writer(kernel, proc)
            views[proc.pid] = lib_view(proc.env)
        sched = graphs.SymSched(g, all_ok=True, on_spawn=on_spawn)
        proj = hrun.Project()
        proj.write_tasks(specs)
        # a package's COND file may be a symbolic link to a file kept elsewhere in the project
        if (decor == 0 and not same) and g.flag("cond_file_is_a_symbolic_link"):
            (proj.root / "shared definitions").mkdir()
            for n_, pkg_ in enumerate(sorted(set(s_.pkg for s_ in specs))):
                src_ = proj.root / pkg_ / "COND"
                dst_ = proj.root / "shared definitions" / ("COND-%d" % n_)
                os.rename(str(src_), str(dst_))
                os.symlink(str(dst_), str(src_))
        vdir = {}
        for j in has_version:
            vdir[j] = str(proj.add_version(specs[j].ident, 100 + j))
        # cond may itself have been started by a task of an outer cond: COND_* variables are then in its own environment
        ambient = g.flag("cond_started_by_a_task_of_an_outer_cond") if (decor == 0 and not same) else False
        saved_env = {k_: os.environ.get(k_) for k_ in ("COND_NAME", "COND_OUT", "COND_DEPS", "COND_SLOT")}
        if ambient:
            outer = proj.root / "outer.task.1"
            outer.mkdir()
            (outer / "precious.txt").write_text("output of the outer task")
            os.environ.update(COND_NAME="outer", COND_OUT=str(outer), COND_DEPS=str(proj.root / "outer-dep.task.2"), COND_SLOT="5")
        try:
            res = graphs.run_graph(g, specs, root, again=again, jobs=1, sched=sched, proj=proj)
        finally:
            for k_, v_ in saved_env.items():
                if v_ is None:
                    os.environ.pop(k_, None)
                else:
                    os.environ[k_] = v_
        try:
            graphs.crash_check(g, res, specs)
            D = graphs.describe(specs) + ["again=%s has_version=%s%s" % (again, sorted(has_version), " COND_* inherited from an outer cond" if ambient else "")]
            g.require(res.status == 0, "env:run-failed", "status=%r err=%r; %s" % (res.status, res.err[-200:], D))
            sp = {}
            for p_ in res.kernel.tasks():
                rel = os.path.relpath(p_.cwd, str(proj.root))
                rel = "" if rel == "." else rel
                j_ = [i for i, s_ in enumerate(specs) if s_.name == p_.name and s_.pkg == rel]
                g.require(bool(j_), "env:cond-name", "a task process ran in //%s with COND_NAME=%r: no such task; %s" % (rel, p_.name, D))
                sp.setdefault(j_[0], []).append(p_)
            out_root = str(proj.out)
            nontrivial = False

            def expected_out(j):
                """Output directory of task j as its dependents must see it."""
                s = specs[j]
                if s.kind == "group":
                    return None
                if j in sp:
                    return sp[j][0].env.get("COND_OUT")
                if s.kind == "run_experiment":
                    return vdir.get(j)          # selected cached version (None: never ran)
                return os.path.join(out_root, s.pkg, s.name + ".task")
            for j, procs in sp.items():
                s = specs[j]
                for p in procs:
                    snap = p.snapshot
                    env = p.env
                    argv = snap["argv"]
                    g.require(len(argv) == 3 and os.path.isabs(argv[0]) and os.path.basename(argv[0]) == "bash" and argv[1] == "-c", "env:not-run-under-bash", "argv=%s; %s" % (argv, D))
                    want = s.run.split() + render_args(s.args) + render_opts(s.options)
                    g.require(argv[2].split() == want, "env:command-line", "%s ran %r, expected tokens %s; %s" % (s.ident, argv[2], want, D))
                    g.require(os.path.realpath(snap["cwd"]) == os.path.realpath(str(proj.root / s.pkg)), "env:cwd",
                              "%s ran in %s; %s" % (s.ident, snap["cwd"], D))
                    g.require(env.get("COND_NAME") == s.name, "env:cond-name", "%s COND_NAME=%r" % (s.ident, env.get("COND_NAME")))
                    out = env.get("COND_OUT", "")
                    base = os.path.join(out_root, s.pkg, s.name + ".task")
                    if s.kind == "run_experiment":
                        ok_shape = re.fullmatch(re.escape(base) + r"\.[1-9][0-9]*", out) is not None
                    else:
                        ok_shape = (out == base)
                    g.require(os.path.isabs(out) and ok_shape and snap.get("out_exists"), "env:cond-out",
                              "%s COND_OUT=%r exists=%s, expected %s[.<version>]; %s" % (s.ident, out, snap.get("out_exists"), base, D))
                    listed = [expected_out(i) for i in s.dep_idx]
                    listed = [x for x in listed if x is not None]
                    g.require(env.get("COND_DEPS") == ":".join(listed), "env:cond-deps",
                              "%s COND_DEPS=%r, expected %r (declared order, the directory each dependency wrote/selected); %s" % (
                                  s.ident, env.get("COND_DEPS"), ":".join(listed), D))
                    if listed:
                        nontrivial = True
                    v = views.get(p.pid, {})
                    g.require(v.get("out") == pathlib.Path(out), "lib:get_output_path", "get_output_path() = %r, COND_OUT=%r" % (v.get("out"), out))
                    g.require(v.get("deps") == [pathlib.Path(x) for x in listed],
                              "lib:get_deps_paths-empty" if not listed else "lib:get_deps_paths",
                              "get_deps_paths() = %r with COND_DEPS=%r" % (v.get("deps"), env.get("COND_DEPS")))
                    g.require(v.get("in_out") == pathlib.Path(out) / "x/y.txt", "lib:in_output_dir", "in_output_dir('x/y.txt') = %r" % (v.get("in_out"),))
            if any(len([t for t in sp if d in specs[t].dep_idx]) >= 2 for d in range(n)):
                g.goal("two dependents of one task both executed")
            if any(j not in sp and j in vdir and any(j in specs[t].dep_idx for t in sp) for j in range(n)):
                g.goal("dependent of a cached experiment")
            if any(specs[j].pkg != specs[i].pkg for j in sp for i in specs[j].dep_idx):
                g.goal("dependency in another package")
            if same and any(len(specs[j].dep_idx) >= 2 for j in sp if isinstance(j, int)):
                g.goal("two dependencies with the same task name")
            return {"nontrivial": nontrivial,
                    "sample": {"tasks": D, "spawns": [{"task": p.name, "argv": p.snapshot["argv"][2], "cwd": p.snapshot["cwd"][-12:],
                                                       "COND_OUT": p.env.get("COND_OUT", "")[-30:], "COND_DEPS": p.env.get("COND_DEPS", "")[-60:]}
                                                      for ps in sp.values() for p in ps][:4]}}
        finally:
            proj.cleanup()
    return fn


def scale_fn(g):
    """A task with seven run_experiment dependencies (cached / executed mix) and names of 130+ characters."""
    from vlib import fakeos
    from vlib.hrun import TaskSpec
    import conductor.cli.run as cli_run
    long_names = g.flag("long_names")
    again = g.flag("again")
    cached_mask = g.choose("cached_mask", 4)          # which of the experiments already have a version
    stem = ("n" * 128 + "-") if long_names else "e"
    exps = [TaskSpec("%s%d" % (stem, i), "run_experiment", [], pkg="data/sets") for i in range(7)]
    top = TaskSpec("top", ("run_command", "run_experiment")[g.choose("top_kind", 2)], [e.ident for e in exps], pkg="")
    other = TaskSpec("other", "run_command", [exps[0].ident, exps[6].ident], pkg="x")
    root = TaskSpec("root", "group", [top.ident, other.ident], pkg="")
    specs = exps + [top, other, root]
    proj = hrun.Project()
    try:
        proj.write_tasks(specs)
        vdir = {}
        masks = {0: [], 1: [0, 1, 2, 3, 4, 5, 6], 2: [0, 2, 4, 6], 3: [6]}[cached_mask]
        for i in masks:
            vdir[i] = str(proj.add_version(exps[i].ident, 100 + i))
        kern = fakeos.Kernel(graphs.SymSched(g, all_ok=True, on_spawn=graphs.output_writer), clock=fakeos.Clock())
        res = hrun.invoke(cli_run.main, hrun.run_ns(task_identifier=root.ident, again=again), str(proj.root), kern, timeout=120)
        D = "7 experiments (names of %d chars) cached=%s again=%s top=%s" % (len(exps[0].name), masks, again, top.kind)
        if isinstance(res.status, str):
            g.require(False, "env:crash:" + res.status[4:], "%s; %s" % (res.exc, D))
        g.require(res.status == 0, "env:run-failed", "status=%r err=%r; %s" % (res.status, res.err[-200:], D))
        procs = {p.name: p for p in kern.tasks()}
        expect = []
        for i, e in enumerate(exps):
            if e.name in procs:
                out = procs[e.name].env["COND_OUT"]
                g.require(re.fullmatch(re.escape(str(proj.out / "data/sets" / (e.name + ".task"))) + r"\.[1-9][0-9]*", out) is not None,
                          "env:cond-out", "%s COND_OUT=%r; %s" % (e.ident[:40], out[-60:], D))
                expect.append(out)
            else:
                expect.append(vdir.get(i))
        g.require(all(x is not None for x in expect), "env:run-failed", "an experiment neither ran nor was cached; %s" % D)
        g.require(len(set(expect)) == 7, "env:output-directories-collide", "two experiments share an output directory; %s" % D)
        for who, idxs in (("top", range(7)), ("other", (0, 6))):
            want = ":".join(expect[i] for i in idxs)
            got = procs[who].env.get("COND_DEPS") if who in procs else None
            g.require(got == want, "env:cond-deps", "%s COND_DEPS lists %s, expected the directories written/selected in this invocation %s; %s" % (
                who, [x[-28:] for x in (got or "").split(":")], [x[-28:] for x in want.split(":")], D))
        g.goal("task with more than five experiment dependencies")
        if long_names:
            g.goal("task names longer than 128 characters")
        return {"nontrivial": True, "sample": {"case": D}}
    finally:
        proj.cleanup()


def lemma_real_environments():
    """The unmodified program, started as a user would start it, in a few unusual process environments (concrete probes,
    not solver-decided): the task must still run under bash with its contract intact."""
    import tempfile, shutil
    out = {"obligations": 0, "discharged": 0, "queries": 0, "solver_s": 0.0, "violations": [], "samples": [], "inconclusive": []}
    base = tempfile.mkdtemp(prefix="verif-c07-env-", dir=hrun.SCRATCH_BASE if os.path.isdir(hrun.SCRATCH_BASE) else None)
    try:
        empty = os.path.join(base, "empty bin")
        os.mkdir(empty)
        keep = {k_: v_ for k_, v_ in os.environ.items() if k_ in ("PYTHONPATH", "LANG", "LC_ALL", "PYTHONDONTWRITEBYTECODE")}
        envs = [("PATH names an empty directory", dict(keep, PATH=empty, HOME=base)),
                ("PATH unset", dict(keep, HOME=base)),
                ("HOME unset and TMPDIR missing", dict(keep, PATH=os.environ.get("PATH", "/usr/bin:/bin"), TMPDIR=os.path.join(base, "nonexistent"))),
                ("PATH whose first bash is another program", dict(keep, PATH=os.path.join(base, "fake bin") + ":/usr/bin:/bin", HOME=base))]
        os.mkdir(os.path.join(base, "fake bin"))
        with open(os.path.join(base, "fake bin", "bash"), "w") as fh:
            fh.write("#!/bin/sh\nexit 0\n")
        os.chmod(os.path.join(base, "fake bin", "bash"), 0o755)
        for label, env in envs:
            proj = hrun.Project(scratch_root=base)
            try:
                proj.write("p/COND", "run_command(name='x', run='[[ -n \"$BASH_VERSION\" ]] && arr=(a b) && echo \"${#arr[@]} $COND_NAME $PWD\" > \"$COND_OUT/n.txt\"')\n")
                out["obligations"] += 1
                rc, so, se = hrun.real_cli(["run", "//p:x"], proj.root, env=env)
                f = proj.out / "p" / "x.task" / "n.txt"
                got = f.read_text().strip() if f.is_file() else None
                want = "2 x %s" % os.path.realpath(str(proj.root / "p"))
                if rc == 0 and got == want:
                    out["discharged"] += 1
                else:
                    out["violations"].append(("env:not-run-under-bash", "with %s: exit %r, the task wrote %r (expected %r), stderr %r" % (label, rc, got, want, se[-200:]), label))
                out["samples"].append({"environment": label, "exit": rc})
            finally:
                proj.cleanup()
    finally:
        shutil.rmtree(base, ignore_errors=True)
    return out


def lemmas(tier):
    from vlib.runner import Lemma
    return [Lemma("real-program-in-unusual-environments", lemma_real_environments,
                  "4 process environments (PATH empty / unset / shadowing bash, HOME unset + TMPDIR missing); one real `cond run` each (concrete)")]


def spaces(tier):
    goals = ["two dependents of one task both executed", "dependent of a cached experiment", "dependency in another package",
             "two dependencies with the same task name"]
    sp = [Space("n3-layouts", make(3, graphs.ALL_KINDS),
                "N<=3, every edge set, deps forward/reversed, 4 kinds, 3 package layouts (depth 0..2), cache bit per experiment, "
                "--again, 3 args/options decorations", depth=8, goals=goals, outside=["N>4", "root path with ':'", "jobs>1"])]
    sp.append(Space("scale-seven-experiment-deps", scale_fn, "a task with 7 run_experiment dependencies in a nested package (4 cache patterns, "
                    "--again, dependent kind), a second dependent of two of them, names of 1 or 130 characters", depth=5,
                    goals=["task with more than five experiment dependencies", "task names longer than 128 characters"]))
    if tier == "thorough":
        sp.append(Space("n4-exp-cmd-combine", make(4, ("run_experiment", "run_command", "combine")),
                        "N=4, kinds {experiment, command, combine}, layouts, cache bits, --again, decorations", depth=10, tiers=("thorough",)))
    return sp


def canaries(tier):
    return [
        Canary("cond-deps-joined-in-reverse",
               lambda: rewrite("conductor.execution.ops.run_task_executable", "RunTaskExecutable.start_execution",
                               "map(str, self._deps_output_paths)", "map(str, reversed(self._deps_output_paths))"),
               preset={"e0_1": False, "e0_2": True, "e1_2": True, "k0": 1, "k1": 1, "k2": 1}),
        Canary("output-directory-not-created",
               lambda: rewrite("conductor.execution.ops.run_task_executable", "RunTaskExecutable.start_execution",
                               "self._output_path.mkdir(parents=True, exist_ok=True)", "pass"),
               preset={"e0_1": True, "k0": 1, "k1": 1}, max_paths=200),
    ]
