"""C19 - run_experiment_group is exactly its documented expansion.

Translation validation: for every choice two COND texts are rendered - the
group form, and the explicit run_experiment... + combine list produced by a
reference desugaring written from the documentation - and both go through the
real loader (accept/reject, identifier -> (type, deps, args, options,
parallelizable)) and the real `cond run` (spawn traces, cond-out digests).
"""
import os

from vlib import fakeos, graphs, hrun
from vlib.runner import Space, Canary, rewrite

ID = "C19"
LEVEL = "translation_validation"
SOLVER_SHARE = "low"
RULE = ("one program pair = (instances with names/args/options/parallelizable from pools incl. clashes and invalid "
        "elements, chain bit, shared deps, experiments=None); non-trivial = both forms accepted with >=2 instances")
TRUSTED = ["reference desugaring in props/c19.py (20 lines, from the documentation)", "fake kernel contract (DESIGN 4)"]
ASSUMPTIONS = ["all children exit 0; same symbolic-free clock for both runs"]

NAMES = ("a", "b", "a", "g", "x", "bad name", "c")       # index 2 repeats "a"; "g" is the group's name; "x" is another task
class Lit:
    """A value rendered literally in both forms (explicitly passed, possibly ill-typed)."""

    def __init__(self, src):
        self.src = src

    def __repr__(self):
        return self.src


ARGS = (None, [1, "two"], [], Lit("None"), Lit("()"))
OPTS = (None, {"k": 3, "flag": True}, Lit("None"), Lit("[]"))
DEPS = ([], [":x"], [":x", ":y"])


def inst_src(i):
    parts = ["name=%r" % i["name"]]
    if i["args"] is not None:
        parts.append("args=%r" % (i["args"],))
    if i["options"] is not None:
        parts.append("options=%r" % (i["options"],))
    if i["par"]:
        parts.append("parallelizable=True")
    return "ExperimentInstance(%s)" % ", ".join(parts)


def group_form(insts, chain, deps, special):
    if special == "none-experiments":
        exp = "None"
    else:
        items = [inst_src(i) for i in insts]
        if special == "non-instance":
            items.insert(len(items) // 2, "('not', 'an instance')")
        exp = "[%s]" % ", ".join(items)
        if special == "generator":
            exp = "(e for e in %s)" % exp      # `experiments` is documented as an iterable: a one-shot iterator is legal
        elif special == "tuple":
            exp = "tuple(%s)" % exp
    return "run_experiment_group(name='g', run='./r.sh', experiments=%s%s%s)\n" % (
        exp, ", chain_experiments=True" if chain else "", (", deps=%r" % (deps,)) if deps is not None else "")


def reference_expansion(insts, chain, deps, special, as_tuple=False):
    """The documented meaning: one run_experiment per instance (sharing run and
    deps, chained to the previous instance if asked), then a combine over them."""
    if special in ("none-experiments", "non-instance"):
        return None                       # no expansion exists: must be rejected
    lines = []
    prev = None
    for i in insts:
        d = list(deps or [])
        if chain and prev is not None:
            d.append(":" + prev)
        lines.append("run_experiment(name=%r, run='./r.sh', parallelizable=%r, args=%r, options=%r, deps=%r)" % (
            i["name"], i["par"], i["args"] if i["args"] is not None else [], i["options"] if i["options"] is not None else {},
            tuple(d) if as_tuple else d))
        # (an explicitly passed value, well-typed or not, is handed to run_experiment() as it is)
        prev = i["name"]
    lines.append("combine(name='g', deps=%r)" % ([":" + i["name"] for i in insts],))
    return "\n".join(lines) + "\n"


COMMON = "run_command(name='x', run='true')\nrun_command(name='y', run='true')\n"


def load_map(root, target="//:g"):
    from conductor.context import Context
    from conductor.task_identifier import TaskIdentifier
    ctx = Context(root)
    ctx.task_index.load_transitive_closure(TaskIdentifier.from_str(target))
    out = {}
    for ident, t in ctx.task_index.get_all_loaded_tasks().items():
        out[str(ident)] = (type(t).__name__, [str(d) for d in t.deps],
                           getattr(getattr(t, "args", None), "_args", None), getattr(getattr(t, "options", None), "_options", None),
                           t.parallelizable)
    return out


def run_project(g, text, tag, second_file=False):
    import conductor.cli.run as cli_run
    proj = hrun.Project()
    proj.write("COND", COMMON + text + ("group(name='top', deps=[':g', '//b:g'])\n" if second_file else ""))
    if second_file:
        # the same definition (same instance names) in a second COND file loaded by the same command
        proj.write("b/COND", COMMON + text)
    sched = graphs.SymSched(g, all_ok=True, on_spawn=graphs.output_writer)
    target = "//:top" if second_file else "//:g"
    chk = hrun.invoke(cli_run.main, hrun.run_ns(task_identifier=target, check=True), str(proj.root), fakeos.Kernel(sched, clock=fakeos.Clock()))
    info = {"proj": proj, "check_status": chk.status, "error": chk.error_class, "check_spawns": len(chk.kernel.tasks())}
    if chk.status == 0:
        holder = {}
        r = hrun.invoke(lambda _: holder.update(map=load_map(proj.root, target)), None, str(proj.root), fakeos.Kernel(fakeos.Sched()))
        info["map"] = holder.get("map")
        kern = fakeos.Kernel(graphs.SymSched(g, all_ok=True, on_spawn=graphs.output_writer), clock=fakeos.Clock(lambda i: 2000.0))
        res = hrun.invoke(cli_run.main, hrun.run_ns(task_identifier=target, jobs=2), str(proj.root), kern)
        info["run_status"] = res.status
        root = str(proj.root)
        info["trace"] = [(p.name, p.snapshot["argv"][2], p.env.get("COND_DEPS", "").replace(root, "<root>"),
                          p.env.get("COND_OUT", "").replace(root, "<root>"), p.env.get("COND_SLOT")) for p in kern.tasks()]
        info["digest"] = hrun.tree_digest(proj.out, exclude=("version_index.sqlite",))
        info["rows"] = proj.index_rows()
    return info


def make(maxinst, args_pool=ARGS, names=NAMES, opts_pool=OPTS, two_files_bit=False, specials=5, tuple_deps_bit=False):
    def fn(g):
        n = g.choose("ninst", maxinst + 1)            # 0..maxinst instances
        insts = []
        for i in range(n):
            insts.append({"name": names[g.choose("name%d" % i, len(names))], "args": args_pool[g.choose("args%d" % i, len(args_pool))],
                          "options": opts_pool[g.choose("opts%d" % i, len(opts_pool))], "par": g.flag("par%d" % i)})
        chain = g.flag("chain")
        deps = DEPS[g.choose("deps", len(DEPS))]
        if not deps and g.flag("deps_omitted"):
            deps = None
        special = ("", "non-instance", "none-experiments", "generator", "tuple")[g.choose("special", specials)] if specials > 1 else ""
        as_tuple = g.flag("deps_given_as_a_tuple") if (tuple_deps_bit and deps) else False
        gtext = group_form(insts, chain, tuple(deps) if as_tuple else deps, special)
        etext = reference_expansion(insts, chain, deps, special, as_tuple)
        two_files = g.flag("second_cond_file") if two_files_bit else False
        A = run_project(g, gtext, "group", two_files)
        B = run_project(g, etext, "explicit", two_files) if etext is not None else None
        try:
            D = "group form: %s | explicit form: %s%s" % (gtext.strip(), (etext or "<no expansion>").strip().replace("\n", "; "),
                                                         " | the same definitions also in //b/COND, target //:top" if two_files else "")
            for X in (A, B):
                if X is not None and isinstance(X["check_status"], str):
                    g.require(False, "group:crash:" + X["check_status"], D)
            acc_b = (B is not None and B["check_status"] == 0)
            g.require((A["check_status"] == 0) == acc_b, "group:accepted-iff-expansion-accepted",
                      "group form %s (%s), expansion %s (%s); %s" % ("accepted" if A["check_status"] == 0 else "rejected", A["error"],
                                                                     "accepted" if acc_b else "rejected", B and B["error"], D))
            g.require(A["check_spawns"] == 0, "group:check-executed", D)
            if A["check_status"] != 0:
                g.goal("both forms rejected")
                return {"nontrivial": False, "sample": {"pair": D, "verdict": "both rejected", "errors": [A["error"], B and B["error"]]}}
            g.require(A["map"] == B["map"], "group:different-task-definitions",
                      "loaded tasks differ: %s vs %s; %s" % (A["map"], B["map"], D))
            g.require(A["run_status"] == B["run_status"] == 0, "group:run-status", "%s vs %s; %s" % (A["run_status"], B["run_status"], D))
            g.require(A["trace"] == B["trace"], "group:different-executions", "spawn traces differ: %s vs %s; %s" % (A["trace"], B["trace"], D))
            g.require(A["digest"] == B["digest"] and [r[:2] for r in A["rows"]] == [r[:2] for r in B["rows"]], "group:different-outputs",
                      "cond-out differs: %s vs %s; %s" % (sorted(A["digest"])[:12], sorted(B["digest"])[:12], D))
            if chain and n >= 2:
                g.goal("chained instances accepted")
            if deps and n >= 1:
                g.goal("shared deps accepted")
            return {"nontrivial": n >= 2, "sample": {"pair": D, "verdict": "equal", "tasks": sorted(A["map"])}}
        finally:
            A["proj"].cleanup()
            if B is not None:
                B["proj"].cleanup()
    return fn


def scale_fn(g):
    """Hundreds of instances; group and instance names of 125+ characters."""
    shape = ("instances-257", "instances-300-chained", "long-names-125+125", "long-names-60+200")[g.choose("shape", 4)]
    if shape.startswith("instances"):
        n = int(shape.split("-")[1])
        insts = [{"name": "r%d" % i, "args": None, "options": None, "par": False} for i in range(n)]
        chain = shape.endswith("chained")
        gname = "g"
    else:
        a, b = shape.split("-")[2].split("+")
        gname = "g" * int(a)
        insts = [{"name": "i" * int(b), "args": [1], "options": None, "par": False}]
        chain = False
    gtext = group_form(insts, chain, [":x"], "").replace("name='g'", "name=%r" % gname)
    etext = reference_expansion(insts, chain, [":x"], "").replace("combine(name='g'", "combine(name=%r" % gname)
    out = []
    for text in (gtext, etext):
        import conductor.cli.run as cli_run
        proj = hrun.Project()
        try:
            proj.write("COND", COMMON + text)
            kern = fakeos.Kernel(graphs.SymSched(g, all_ok=True, on_spawn=graphs.output_writer), clock=fakeos.Clock(lambda i: 2000.0))
            chk = hrun.invoke(cli_run.main, hrun.run_ns(task_identifier="//:" + gname, check=True), str(proj.root),
                              fakeos.Kernel(fakeos.Sched(), clock=fakeos.Clock()), timeout=200)
            info = {"check": chk.status, "error": chk.error_class}
            if chk.status == 0:
                res = hrun.invoke(cli_run.main, hrun.run_ns(task_identifier="//:" + gname), str(proj.root), kern, timeout=300)
                info["run"] = res.status
                info["spawned"] = sorted(p.name for p in kern.tasks())
                info["outputs"] = sorted(k for k in hrun.tree_digest(proj.out, exclude=("version_index.sqlite",)) if k.count(os.sep) <= 1)
            out.append(info)
        finally:
            proj.cleanup()
    D = shape
    for X in out:
        if isinstance(X["check"], str):
            g.require(False, "group:crash:" + X["check"][4:], D)
    g.require(out[0]["check"] == out[1]["check"], "group:accepted-iff-expansion-accepted",
              "group form: check status %r (%s); expansion: %r (%s); %s" % (out[0]["check"], out[0]["error"], out[1]["check"], out[1]["error"], D))
    if out[0]["check"] == 0:
        g.require(out[0]["run"] == out[1]["run"] == 0 and out[0]["spawned"] == out[1]["spawned"] and out[0]["outputs"] == out[1]["outputs"],
                  "group:different-executions", "run %r/%r, %d/%d spawns; %s" % (out[0]["run"], out[1]["run"], len(out[0]["spawned"]), len(out[1]["spawned"]), D))
    g.goal("group with more than 256 instances" if shape.startswith("instances") else "long group and instance names")
    return {"nontrivial": True, "sample": {"case": D, "check": [out[0]["check"], out[1]["check"]]}}


def spaces(tier):
    goals = ["both forms rejected", "chained instances accepted", "shared deps accepted"]
    sp = [Space("scale-many-instances-long-names", scale_fn, "groups of 257 and of 300 chained instances; group/instance names of 125+125 and "
                "60+200 characters; group form vs documented expansion", depth=2,
                goals=["group with more than 256 instances", "long group and instance names"]),
          Space("inst2-iterables", make(2, args_pool=ARGS[:2], opts_pool=OPTS[:1], names=("a", "b", "a"), specials=5),
                "0..2 instances from {a, b, a again}; experiments given as list | list with a non-instance | None | one-shot generator | tuple",
                depth=6),
          Space("inst1-explicit-values-two-files", make(1, args_pool=ARGS, opts_pool=OPTS, names=("a",), two_files_bit=True, specials=1),
                "0..1 instance; args from {omitted, list, [], explicit None, explicit ()}, options from {omitted, dict, explicit None, "
                "explicit []}; chain bit; deps; the same definitions optionally also in a second COND file of the same command", depth=6),
          Space("inst2-chained-two-files-tuple-deps", make(2, args_pool=ARGS[:1], opts_pool=OPTS[:1], names=("a", "b"), two_files_bit=True, specials=1,
                                                          tuple_deps_bit=True),
                "0..2 instances {a, b}; chain bit; deps {omitted, [], [:x], [:x,:y]} given as a list or as a tuple; the same definitions "
                "optionally also in a second COND file (package b) of the same command", depth=8),
          Space("inst2", make(2, args_pool=ARGS[:2], opts_pool=OPTS[:2], names=NAMES[:6], specials=3), "0..2 instances; names from {a, b, a again, group's own name, another task's name, invalid}; args 2, "
                "options 2, parallelizable bit per instance; chain bit; deps {omitted, [], [:x], [:x,:y]}; {ok, non-instance element, "
                "experiments=None, one-shot generator, tuple}", depth=6, goals=goals, outside=[">3 instances"])]
    if tier == "thorough":
        sp.append(Space("inst3", make(3, args_pool=ARGS[:2], opts_pool=OPTS[:2], names=("a", "b", "a", "c"), specials=3),
                        "0..3 instances; names {a, b, a again, c}; args 2, options 2, parallelizable bits; chain; deps; {ok, non-instance, None}",
                        depth=7, tiers=("thorough",)))
    return sp


class stdlib_rewrite:
    """The loader compiles the stdlib *file*; mutate the source it gets."""

    def __init__(self, old, new):
        self.old, self.new = old, new

    def __enter__(self):
        from vlib.runner import StaleCanary
        import conductor.parsing.task_loader as tl
        from conductor.task_types.stdlib import STDLIB_FILES
        src = open(STDLIB_FILES[0]).read()
        if src.count(self.old) != 1:
            raise StaleCanary("stdlib anchor %r occurs %d times" % (self.old, src.count(self.old)))
        mutated = src.replace(self.old, self.new)
        raw = tl.TaskLoader._compile_scope
        self.tl, self.raw = tl, raw

        def _compile_scope(loader):
            scope = raw(loader)
            exec(compile(mutated, "<canary stdlib>", "exec"), scope)
            return scope
        tl.TaskLoader._compile_scope = _compile_scope
        return self

    def __exit__(self, *a):
        self.tl.TaskLoader._compile_scope = self.raw
        return False


def canaries(tier):
    cs = [Canary("combine-lists-instances-in-reverse",
                 lambda: stdlib_rewrite("deps=relative_experiment_identifiers,", "deps=list(reversed(relative_experiment_identifiers)),"),
                 preset={"ninst": 2, "name0": 0, "name1": 1, "special": 0}, space="inst2")]
    if tier == "thorough":
        cs.append(Canary("chain-depends-on-first-instance",
                         lambda: stdlib_rewrite("prev_experiment_identifier = experiment_identifier",
                                                "prev_experiment_identifier = prev_experiment_identifier or experiment_identifier"),
                         space="inst3", preset={"ninst": 3, "name0": 0, "name1": 1, "name2": 3, "special": 0, "chain": True}))
    return cs
