"""C02 - each needed task runs exactly once per invocation; nothing else runs.

Real `cond run` over the fake kernel; graph, listing order, kinds, cache bits
and flags are solver variables, all children succeed.  The oracle is the
documented caching rule computed independently from the chosen graph.
"""
from vlib import graphs, hrun
from vlib.runner import Space, Canary, rewrite

ID = "C02"
LEVEL = "model_checking"
SOLVER_SHARE = "low"
RULE = ("one case = one feasible path (graph, listing order, kinds, cache bit per experiment, flag); non-trivial = "
        "the closure contains a shared dependency or a cached experiment and at least one task executes")
TRUSTED = ["z3", "fake kernel contract (DESIGN 4)", "CPython subprocess (executed)", "sqlite"]
ASSUMPTIONS = ["all children exit 0 (failures are C03's subject)", "--jobs 1..2, eager SIGCHLD",
               "index holds 0 or 1 version per experiment (selection among several is C05's subject)",
               "git disabled"]


def make(n, kinds, orders="rev", jobs_hi=2, atleast=False, batch=False):
    def fn(g):
        specs = graphs.sym_graph(g, n, kinds, orders=orders)
        root = n - 1
        at_least = None
        vcommit = {}
        if atleast:
            from props import c05
            mode = ("default", "again", "at-least-c0", "at-least-c1")[g.choose("flagmode", 4)]
            again = mode == "again"
            if mode.startswith("at-least"):
                at_least = c05.H(int(mode[-1]))
        else:
            again = g.flag("again")
        has_version = {j for j, s in enumerate(specs) if s.kind == "run_experiment" and g.flag("c%d" % j)}
        jobs = g.choose("jobs", jobs_hi) + 1
        proj = hrun.Project(config="" if atleast else "disable_git = true\n")
        proj.write_tasks(specs)
        if atleast:
            # linear history c0 <- c1 = HEAD; each recorded version was made at c0 or at c1
            dag = c05.Dag(g, 2)
            sched = c05.GitSched(g, "dag", dag, 1, False)
            for j in sorted(has_version):
                vcommit[j] = g.choose("vc%d" % j, 2)
                proj.add_version(specs[j].ident, 100 + j, commit=c05.H(vcommit[j]))
        else:
            sched = graphs.SymSched(g, all_ok=True, on_spawn=graphs.output_writer, batch=batch)
            for j in has_version:
                proj.add_version(specs[j].ident, 100 + j)
        rows_before = proj.index_rows()
        res = graphs.run_graph(g, specs, root, again=again, jobs=jobs, sched=sched, proj=proj, at_least=at_least, adversarial=batch)
        try:
            graphs.crash_check(g, res, specs)
            D = graphs.describe(specs) + ["again=%s at_least=%s has_version=%s made_at=%s" % (again, at_least and at_least[:2], sorted(has_version), vcommit)]
            cached = set() if again else has_version
            if at_least is not None:
                # --at-least C re-runs versions made at a strict ancestor of C
                C = int(at_least[1])
                cached = {j for j in has_version if not (vcommit[j] < C)}
                if any(j in has_version and vcommit[j] < C for j in graphs.reachable(specs, root)):
                    g.goal("--at-least forces a cached experiment to re-run")
            need = graphs.needed(specs, root, cached)
            info = hrun.parse_run_output(res)
            ii = graphs.ident_index(specs)
            running = [ii[x] for _, x in info["running"]]
            g.require(not info["skipping"] and res.status == 0 and info["done"], "exec:unexpected-failure",
                      "all children succeeded but status=%r out=%r err=%r %s" % (res.status, res.out[-300:], res.err[-300:], D))
            # every needed task announced/executed exactly once, nothing else
            for j in range(n):
                c = running.count(j)
                if j in need:
                    g.require(c == 1, "exec:needed-task-run-%s" % ("twice" if c > 1 else "never"),
                              "%s needed, announced %d times; %s" % (specs[j].ident, c, D))
                else:
                    g.require(c == 0, "exec:unneeded-task-run",
                              "%s is not needed (outside the closure or behind a cached result) but ran; %s" % (specs[j].ident, D))
            sp = graphs.spawned_by_task(res, specs)
            for j, s in enumerate(specs):
                want = 1 if (j in need and s.kind in hrun.SUBPROCESS_KINDS) else 0
                got = len(sp.get(j, []))
                g.require(got == want, "exec:spawn-count", "%s spawned %d times, expected %d; %s" % (s.ident, got, want, D))
            # never both cached and executed
            rep_cached = [ii[x] for x in info["cached"]]
            for j in rep_cached:
                g.require(j not in running and j not in sp, "exec:cached-and-executed",
                          "%s reported as cached and executed; %s" % (specs[j].ident, D))
                g.require(j in cached and j in graphs.reachable(specs, root), "exec:cached-report-wrong",
                          "%s reported as cached but has no reusable version / is outside the closure; %s" % (specs[j].ident, D))
            # progress totals
            tot = len(need)
            g.require([p for p in info["progress"]] == [(i + 1, tot) for i in range(tot)], "exec:progress",
                      "progress lines %s, expected 1..%d of %d; %s" % (info["progress"], tot, tot, D))
            # index rows added = executed experiments, fresh ids
            rows = proj.index_rows()
            added = [r for r in rows if r not in rows_before]
            exp_ids = sorted(specs[j].ident for j in need if specs[j].kind == "run_experiment")
            g.require(sorted(r[0] for r in added) == exp_ids and all(r in rows for r in rows_before), "exec:index-rows",
                      "rows added %s, expected one per executed experiment %s; %s" % (added, exp_ids, D))
            if any(j in cached for j in graphs.reachable(specs, root)) and need:
                g.goal("cached experiment hides part of the closure")
            shared = [d for d in range(n) if sum(1 for t in need if d in specs[t].dep_idx) >= 2 and d in need]
            if shared:
                g.goal("dependency shared by two executed tasks")
            if len(need) < len(graphs.reachable(specs, root)) and need:
                g.goal("task behind a cached result is not executed")
            return {"nontrivial": bool(need) and (bool(shared) or bool(cached & graphs.reachable(specs, root))),
                    "sample": {"tasks": D, "needed": sorted(specs[j].ident for j in need), "announced": info["running"],
                               "cached_reported": info["cached"], "progress": info["progress"]}}
        finally:
            proj.cleanup()
    return fn


def scale_fn(g):
    """Wide graph (133 tasks): a shared dependency is referenced again after 128 other tasks were looked up."""
    from vlib import scale, fakeos
    import conductor.cli.run as cli_run
    shared_kind = ("run_command", "run_experiment")[g.choose("shared_kind", 2)]
    shared_last = g.flag("shared_listed_last")
    again = g.flag("again")
    jobs = (1, 3)[g.choose("jobs", 2)]
    specs = scale.wide_shared(130, shared_kind, shared_last)
    proj = hrun.Project()
    try:
        proj.write_tasks(specs)
        # (completion order is fixed here - oldest running child first - the order dimension is explored on small graphs)
        kern = fakeos.Kernel(fakeos.Sched(), clock=fakeos.Clock())
        res = hrun.invoke(cli_run.main, hrun.run_ns(task_identifier="//:root", again=again, jobs=jobs), str(proj.root), kern, timeout=120)
        D = "133 tasks: root <- [late, c0..c129, shared], late <- shared; shared=%s listed %s, again=%s jobs=%d" % (
            shared_kind, "last" if shared_last else "first", again, jobs)
        if isinstance(res.status, str):
            g.require(False, "exec:crash:" + res.status[4:], "%s; %s" % (res.exc, D))
        info = hrun.parse_run_output(res)
        names = [p.name for p in kern.tasks()]
        dup = sorted(set(n for n in names if names.count(n) > 1))
        g.require(not dup, "exec:needed-task-run-twice", "%s spawned more than once; %s" % (dup, D))
        g.require(len(names) == 132 and res.status == 0, "exec:spawn-count", "%d spawns (expected 132), status %r; %s" % (len(names), res.status, D))
        g.require(info["progress"] == [(i + 1, 133) for i in range(133)], "exec:progress", "progress %s...%s; %s" % (info["progress"][:2], info["progress"][-2:], D))
        g.require(not (set(x for x in info["cached"]) & set(x for _, x in info["running"])), "exec:cached-and-executed", "%s; %s" % (info["cached"], D))
        # ordering (C01): late starts after shared finished
        sh = [p for p in kern.tasks() if p.name == "shared"][0]
        la = [p for p in kern.tasks() if p.name == "late"][0]
        g.require(sh.t_exit is not None and sh.t_exit < la.t_spawn, "order:dependent-started-before-dependency-finished", "late at %s, shared [%s,%s]; %s" % (la.t_spawn, sh.t_spawn, sh.t_exit, D))
        g.goal("graph of more than 128 tasks")
        return {"nontrivial": True, "sample": {"case": D, "spawns": len(names)}}
    finally:
        proj.cleanup()


def spaces(tier):
    goals = ["cached experiment hides part of the closure", "dependency shared by two executed tasks",
             "task behind a cached result is not executed"]
    sp = [Space("n3-allkinds", make(3, graphs.ALL_KINDS),
                "N<=3, every edge set, deps forward/reversed, 4 kinds, parallelizable bits, cache bit per experiment, "
                "{default, --again}, jobs 1..2, all children exit 0", depth=7, goals=goals,
                outside=["N>3", "several versions per task (C05)"]),
          Space("n3-atleast", make(3, ("run_experiment", "run_command"), jobs_hi=1, atleast=True),
                "N<=3, kinds {experiment, command}, git history c0 <- c1 = HEAD through the fake git, each recorded version made at "
                "c0 or c1, flags {default, --again, --at-least c0, --at-least c1}", depth=7,
                goals=["--at-least forces a cached experiment to re-run"])]
    sp.append(Space("n4-batched-exits-j3", make(4, ("run_command",), jobs_hi=3, batch=True),
                    "4 run_command tasks, every edge set, par bits, --jobs 3 fixed, one SIGCHLD may stand for two or three exits", depth=9,
                    preset={"jobs": 2, "again": True}))
    sp.append(Space("n4-group-over-cached", make(4, graphs.ALL_KINDS, jobs_hi=2),
                    "N=4 with t0 a command, t1 an experiment (cache bit), t2 a group, t3 of any kind: every edge set, listing order, par bits, "
                    "cache bits, jobs 1..2 (a group in the middle whose members are all cached, next to an uncached sibling)", depth=10,
                    preset={"k0": 1, "k1": 0, "k2": 2, "again": False}))
    sp.append(Space("scale-wide-133", scale_fn, "133 tasks (a group over 131 commands, one of them depending on a shared task that the root "
                    "lists again 128 tasks later); shared task kind, listing position, --again, jobs {1,3}", depth=4,
                    goals=["graph of more than 128 tasks"]))
    if tier == "thorough":
        sp.append(Space("n4-exp-cmd", make(4, ("run_experiment", "run_command"), jobs_hi=1),
                        "N=4, kinds {run_experiment, run_command}, cache bits, {default,--again}, jobs 1", depth=9,
                        tiers=("thorough",)))
        sp.append(Space("n4-exp-group", make(4, ("run_experiment", "group"), jobs_hi=1),
                        "N=4, kinds {run_experiment, group}, cache bits, {default,--again}, jobs 1", depth=9,
                        tiers=("thorough",)))
        sp.append(Space("n3-allperm", make(3, graphs.ALL_KINDS, orders="all", jobs_hi=1),
                        "N=3, all kinds, all permutations of deps", depth=7, tiers=("thorough",)))
    return sp


def canaries(tier):
    return [
        Canary("planner-ignores-visited",
               lambda: rewrite("conductor.execution.planning.planner", "ExecutionPlanner.create_plan_for",
                               "dep = visited.get(dep_ident)", "dep = None")),
        Canary("should-run-ignores-index",
               lambda: rewrite("conductor.task_types.run", "RunExperiment.should_run",
                               "if self._most_relevant_version is None:", "if True:")),
    ]
