"""C10 - recorded stdout/stderr and argument records are exact.

The real TeeProcessor threads, OutputHandler and RunTaskExecutable run over the
fake kernel; the child's output schedule - number of chunks per stream, each
chunk's length from {0, 1, 4095, 4096, 4097, 65537}, which stream is written
first, interleaving - is a solver choice, the payload is a fixed non-UTF-8
byte pool.  Byte *values* are not symbolic (they cross real pipes and files);
the claim is over chunk schedules and lengths.
"""
import array
import fcntl
import hashlib
import json
import os
import sys
import termios
import time

from vlib import fakeos, hrun
from vlib.hrun import TaskSpec
from vlib.runner import Space, Canary, rewrite

ID = "C10"
LEVEL = "exploration"
SOLVER_SHARE = "low"
RULE = ("one case = (sequential or parallel slot, chunk schedule on stdout (<=3 chunks) and stderr (<=1 chunk), stream "
        "order/interleaving, args/options decoration); non-trivial = at least one chunk of >= 4096 bytes or both streams used")
TRUSTED = ["kernel pipe semantics (real pipes, real threads)", "fake kernel contract (DESIGN 4)"]
ASSUMPTIONS = ["byte values come from one fixed pseudo-random pool containing \\x00, \\xff, \\n, \\r\\n and invalid UTF-8",
               "the child writes its output and exits; all writes happen while Conductor waits for it"]

SIZES = (0, 1, 4095, 4096, 4097, 65537)
ERR_SIZES = (0, 1, 4097)
DECOR = (([], {}), ([1, "two", 2.5, False], {"k": "v", "z": 0, "a": True}), (["only-args"], {}), ([], {"only": "options"}),
         ([""], {"empty": ""}), ([0], {"zero": 0}))
# a second experiment in the same run whose args/options are element-wise == to DECOR[1]'s but of other primitive types
TWIN = ([1.0, "two", 2.5, 0], {"k": "v", "z": False, "a": 1})


def strict_eq(a, b):
    """Equality that tells 1, 1.0 and True apart (JSON round trip must preserve the declared primitive type)."""
    if type(a) is not type(b):
        return False
    if isinstance(a, list):
        return len(a) == len(b) and all(strict_eq(x, y) for x, y in zip(a, b))
    if isinstance(a, dict):
        return sorted(a) == sorted(b) and all(strict_eq(a[k], b[k]) for k in a)
    return a == b


def pool(n, salt):
    out = bytearray()
    i = 0
    while len(out) < n:
        out += hashlib.sha256(b"%d-%d" % (salt, i)).digest()
        i += 1
    head = b"\x00\xff\n\r\n\xc3\x28\xfe"
    return (head + bytes(out))[:n]


def make(sizes=SIZES, nmax=3):
    def fn(g):
        import conductor.cli.run as cli_run
        parallel = g.flag("parallel_slot")
        nout = g.choose("nout", nmax + 1)
        out_chunks = [pool(sizes[g.choose("olen%d" % i, len(sizes))], 10 + i) for i in range(nout)]
        err_chunks = [pool(ERR_SIZES[g.choose("elen", len(ERR_SIZES))], 99)] if g.flag("use_stderr") else []
        err_first = g.flag("stderr_first") if err_chunks else False
        interleave = g.flag("interleave") if (err_chunks and nout >= 2) else False
        di = g.choose("decor", len(DECOR))
        args, opts = DECOR[di]
        twin = g.flag("twin_task") if di == 1 else False
        heavy = (not parallel) and bool(err_chunks) and nout == 1 and not err_first and g.flag("both_streams_concurrently")
        if heavy:
            out_chunks = [c * 4 for c in out_chunks]
            err_chunks = [pool(max(len(b"".join(out_chunks)), 4096), 77)]
        proj = hrun.Project()
        try:
            tasks = [TaskSpec("e", "run_experiment", [], par=parallel, run="./exp.sh", args=args or None, options=opts or None)]
            if twin:
                tasks.insert(0, TaskSpec("w", "run_experiment", [], par=parallel, run="./exp.sh", args=TWIN[0], options=TWIN[1]))
                tasks[1].deps = [":w"]
            proj.write_tasks(tasks)
            seen = {}

            class S(fakeos.Sched):
                def on_spawn(self, kernel, proc):
                    hrun.snapshot_on_spawn(kernel, proc)
                    seen["fds"] = {}
                    for which, fd in proc.stdio.items():
                        try:
                            seen["fds"][which] = os.readlink("/proc/self/fd/%d" % fd) if fd != -1 else None
                        except OSError:
                            seen["fds"][which] = None

                def status_for(self, kernel, proc):
                    # the child's whole output happens now: Conductor is blocked waiting, the tee threads are running
                    if proc.name != "e":
                        return fakeos.StatusExited(0)
                    if heavy:
                        # both descriptors are written at the same time (two writers, 4 KiB pieces)
                        import threading
                        def writer(which, data):
                            for i in range(0, len(data), 4096):
                                kernel.child_write(proc, which, data[i:i + 4096])
                        ts = [threading.Thread(target=writer, args=("out", b"".join(out_chunks))),
                              threading.Thread(target=writer, args=("err", b"".join(err_chunks)))]
                        for t in ts:
                            t.start()
                        for t in ts:
                            t.join()
                        return fakeos.StatusExited(0)
                    seq = []
                    o = list(out_chunks)
                    e = list(err_chunks)
                    if err_first:
                        seq += [("err", c) for c in e]
                        e = []
                    if interleave and o:
                        seq.append(("out", o.pop(0)))
                        seq += [("err", c) for c in e]
                        e = []
                    seq += [("out", c) for c in o] + [("err", c) for c in e]
                    for which, data in seq:
                        kernel.child_write(proc, which, data)
                    return fakeos.StatusExited(0)
            kern = fakeos.Kernel(S(), clock=fakeos.Clock())
            res = hrun.invoke(cli_run.main, hrun.run_ns(task_identifier="//:e", jobs=2 if parallel else None), str(proj.root), kern)
            D = "parallel=%s out_chunks=%s err_chunks=%s err_first=%s interleave=%s concurrent=%s args=%s options=%s twin_task=%s" % (
                parallel, [len(c) for c in out_chunks], [len(c) for c in err_chunks], err_first, interleave, heavy, args, opts, twin)
            if isinstance(res.status, str):
                g.require(False, "log:crash:" + res.status[4:], "%s; %s" % (res.exc, D))
            g.require(res.status == 0, "log:run-failed", "status=%r err=%r; %s" % (res.status, res.err[-200:], D))
            p = [x for x in kern.tasks() if x.name == "e"][0]
            out = p.env["COND_OUT"]
            want_out = b"".join(out_chunks)
            want_err = b"".join(err_chunks)
            for name, want in (("stdout.log", want_out), ("stderr.log", want_err)):
                f = os.path.join(out, name)
                got = open(f, "rb").read() if os.path.isfile(f) else None
                g.require(got == want, "log:%s-differs" % name,
                          "%s has %s bytes, the command wrote %d%s; %s" % (
                              name, None if got is None else len(got), len(want),
                              "" if got is None or len(got) != len(want) else " (same length, different content)", D))
            if not parallel:
                g.require(res.stdout.forwarded() == want_out, "log:stdout-not-forwarded-exactly",
                          "forwarded %d bytes to cond's stdout, the command wrote %d; %s" % (len(res.stdout.forwarded()), len(want_out), D))
                g.require(res.stderr.forwarded() == want_err, "log:stderr-not-forwarded-exactly",
                          "forwarded %d bytes to cond's stderr, the command wrote %d; %s" % (len(res.stderr.forwarded()), len(want_err), D))
                g.goal("sequential run teed through pipes")
            else:
                g.require(p.env.get("COND_SLOT") is not None, "log:not-in-a-slot", D)
                g.goal("task in a parallel slot")
            recs = [("e", out, args, opts)]
            if twin:
                pw = [x for x in kern.tasks() if x.name == "w"][0]
                recs.append(("w", pw.env["COND_OUT"], TWIN[0], TWIN[1]))
                g.goal("two experiments with element-wise equal arguments of different types")
            for tname, tout, targs, topts in recs:
                for fname, val in (("args.json", targs), ("options.json", topts)):
                    f = os.path.join(tout, fname)
                    if val:
                        try:
                            got_v = json.load(open(f)) if os.path.isfile(f) else None
                            ok = got_v is not None and strict_eq(got_v, val)
                        except ValueError:
                            got_v, ok = "<undecodable>", False
                        g.require(ok, "record:%s-wrong" % fname, "//:%s %s decodes to %r, declared %r (types matter); %s" % (tname, fname, got_v, val, D))
                    else:
                        g.require(not os.path.exists(f), "record:%s-unexpected" % fname, "%s exists although nothing was declared; %s" % (fname, D))
            if any(len(c) >= 4096 for c in out_chunks):
                g.goal("chunk of at least one tee buffer")
            if any(len(c) > 65536 for c in out_chunks):
                g.goal("chunk larger than the pipe buffer")
            return {"nontrivial": any(len(c) >= 4096 for c in out_chunks) or (bool(out_chunks) and bool(err_chunks)),
                    "sample": {"case": D}}
        finally:
            proj.cleanup()
    return fn


def scale_fn(g):
    """Megabyte-sized output in many chunks, on one or both streams."""
    import conductor.cli.run as cli_run
    parallel = g.flag("parallel_slot")
    both = g.flag("both_streams")
    piece = (4096, 5000, 65536, 3)[g.choose("piece", 4)]
    # 3-byte pieces: 20000 separate writes (60000 bytes: less than one pipe buffer) while whoever reads cond's own stdout is
    # not reading; it resumes once the task has written everything
    stalled = piece == 3
    if stalled and parallel:
        return {"nontrivial": False, "sample": None}
    # cond itself started from a task of an outer `cond run -j N`: COND_* variables are in its own environment
    nested = g.flag("cond_started_inside_a_slot_of_an_outer_cond")
    total = 60000 if stalled else (1 << 20) + 123
    data_out = pool(total, 5)
    data_err = pool(total // 2 + 7, 6) if both else b""
    import threading
    release = threading.Event()
    proj = hrun.Project()
    try:
        big_args = ["the quick brown fox jumps over the lazy dog %d" % i if i % 4 == 0 else (i * 7 if i % 4 == 1 else (i + 0.5 if i % 4 == 2 else bool(i % 8 == 3)))
                    for i in range(32)] + ["w" * 300, "tab\there", "  two  spaces  ", "-", "--", "a,b", '"quoted" words here', "x" * 79 + " y"]
        big_opts = {"opt_%02d" % i: big_args[i] for i in range(24)}
        big_opts["long-words"] = " ".join(["word"] * 60)
        proj.write_tasks([TaskSpec("e", "run_experiment", [], par=parallel, run="./exp.sh", args=big_args, options=big_opts)])

        class S(fakeos.Sched):
            def on_spawn(self, kernel, proc):
                if stalled:
                    sys.stdout.stall = release
                    sys.stderr.stall = release

            def status_for(self, kernel, proc):
                def writer(which, data):
                    misses = 0
                    for i in range(0, len(data), piece):
                        kernel.child_write(proc, which, data[i:i + piece])
                        if stalled and misses < 3:
                            # let the reader of the pipe take this piece before the next one is written (bounded wait)
                            end = time.perf_counter() + 0.02
                            buf = array.array("i", [1])
                            while time.perf_counter() < end:
                                fcntl.ioctl(proc.fds[which], termios.FIONREAD, buf)
                                if buf[0] == 0:
                                    break
                                time.sleep(0)
                            misses = misses + 1 if buf[0] else 0
                ts = [threading.Thread(target=writer, args=("out", data_out))] + ([threading.Thread(target=writer, args=("err", data_err))] if both else [])
                for t in ts:
                    t.start()
                for t in ts:
                    t.join()
                release.set()
                return fakeos.StatusExited(0)
        kern = fakeos.Kernel(S(), clock=fakeos.Clock())
        saved_env = {k_: os.environ.get(k_) for k_ in ("COND_SLOT", "COND_NAME", "COND_OUT", "COND_DEPS")}
        if nested:
            os.environ.update(COND_SLOT="3", COND_NAME="outer", COND_OUT=str(proj.root / "outer-out"), COND_DEPS=str(proj.root / "outer-dep"))
        try:
            res = hrun.invoke(cli_run.main, hrun.run_ns(task_identifier="//:e", jobs=2 if parallel else None), str(proj.root), kern, timeout=120)
        finally:
            for k_, v_ in saved_env.items():
                if v_ is None:
                    os.environ.pop(k_, None)
                else:
                    os.environ[k_] = v_
        release.set()
        D = "%d bytes on stdout%s in pieces of %d bytes, parallel=%s%s" % (len(data_out), " and %d on stderr" % len(data_err) if both else "", piece, parallel,
                                                                          ", cond's own stdout/stderr not read until the task has written everything" if stalled else "") + (
            ", cond started inside a slot of an outer cond (COND_SLOT/COND_OUT/... inherited)" if nested else "")
        if isinstance(res.status, str):
            g.require(False, "log:crash:" + res.status[4:], "%s; %s" % (res.exc, D))
        g.require(res.status == 0, "log:run-failed", "status=%r; %s" % (res.status, D))
        made = sorted(str(x) for x in proj.out.glob("e.task.*"))
        g.require(len(made) == 1 and kern.tasks()[0].env.get("COND_OUT") == made[0], "log:task-not-given-its-fresh-output-directory",
                  "cond-out has %s, the task was given COND_OUT=%r; %s" % ([os.path.basename(x) for x in made], kern.tasks()[0].env.get("COND_OUT"), D))
        out = made[0]
        for name, want in (("stdout.log", data_out), ("stderr.log", data_err)):
            got = open(os.path.join(out, name), "rb").read()
            g.require(got == want, "log:%s-differs" % name, "%s has %d bytes, the command wrote %d%s; %s" % (
                name, len(got), len(want), "" if len(got) != len(want) else " (same length, different content)", D))
        if not parallel:
            g.require(res.stdout.forwarded() == data_out and res.stderr.forwarded() == data_err, "log:stdout-not-forwarded-exactly",
                      "forwarded %d/%d bytes; %s" % (len(res.stdout.forwarded()), len(res.stderr.forwarded()), D))
        for fname, val in (("args.json", big_args), ("options.json", big_opts)):
            try:
                got_v = json.load(open(os.path.join(out, fname)))
                ok = strict_eq(got_v, val)
            except (ValueError, OSError) as ex_:
                got_v, ok = "<%s>" % type(ex_).__name__, False
            g.require(ok, "record:%s-wrong" % fname, "%s decodes to %s..., declared %d values incl. multi-word and 300-character strings; %s" % (
                fname, repr(got_v)[:200], len(val), D))
        if not stalled:
            g.goal("output of more than one megabyte")
        else:
            g.goal("twenty thousand small writes while the consumer is stalled")
        return {"nontrivial": True, "sample": {"case": D}}
    finally:
        proj.cleanup()


def spaces(tier):
    sp = [Space("scale-megabyte-output", scale_fn, "1 MiB + 123 bytes on stdout (and 0.5 MiB on stderr, written concurrently) in pieces of 4096 / 5000 / "
                  "65536 bytes; sequential and parallel slot; 20000 writes of 3 bytes while cond's own stdout is not being read", depth=3,
                  goals=["output of more than one megabyte", "twenty thousand small writes while the consumer is stalled"]),
            Space("chunk-schedules", make(),
                  "sequential | parallel slot; stdout 0..3 chunks with lengths from {0,1,4095,4096,4097,65537}; stderr absent or one "
                  "chunk from {0,1,4097}; stderr first / interleaved; 4 args/options decorations", depth=7,
                  goals=["sequential run teed through pipes", "task in a parallel slot", "chunk of at least one tee buffer",
                         "chunk larger than the pipe buffer"],
                  outside=["byte values as solver variables", "outputs larger than 3 x 64 KiB", "tasks that keep stdout open after exiting"])]
    if tier == "thorough":
        sp.append(Space("chunk-schedules-4-chunks", make(sizes=(0, 1, 4096, 4097, 8192, 65536, 131073), nmax=4),
                        "as chunk-schedules with up to 4 stdout chunks from {0,1,4096,4097,8192,65536,131073}", depth=8, tiers=("thorough",)))
    return sp


def canaries(tier):
    return [
        Canary("tee-drops-last-byte-of-a-full-chunk",
               lambda: rewrite("conductor.utils.tee", "TeeProcessor._tee_pipe_run", "file.write(data)",
                               "file.write(data[:-1] if len(data) == 4096 else data)"),
               preset={"parallel_slot": False, "nout": 1, "olen0": 3, "use_stderr": False, "decor": 0}, space="chunk-schedules"),
        Canary("options-json-not-written",
               lambda: rewrite("conductor.execution.ops.run_task_executable", "RunTaskExecutable.finish_execution",
                               "if not self._options.empty():", "if False:"),
               preset={"decor": 1, "nout": 0, "use_stderr": False}, space="chunk-schedules"),
    ]
