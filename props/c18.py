"""C18 - combine() exposes each dependency's output under its name.

Real `cond run` of a combine task over dependencies of every kind placed in
nested packages, with a pre-existing entry at a link location (none / link of
an earlier run / regular directory / regular file) and an optional second run
that creates new versions.  All inputs are finite choices; the engine exhausts
the product.
"""
import os

from vlib import fakeos, graphs, hrun
from vlib.hrun import TaskSpec
from vlib.runner import Space, Canary, rewrite

ID = "C18"
LEVEL = "exploration"
SOLVER_SHARE = "low"
RULE = ("one case = (number/kinds/packages of dependencies, which of them write output, package of the combine task, "
        "pre-existing entry, one or two runs); non-trivial = at least one link has to be created or replaced")
TRUSTED = ["fake kernel contract (DESIGN 4)", "POSIX symlink/realpath semantics (real tmpfs)"]
ASSUMPTIONS = ["dangling links produced by deleting outputs by hand are outside the claim", "all children exit 0"]

DEP_KINDS = ("run_experiment", "run_command", "group")
PKGS = ("", "p", "p/q")
PRE = ("none", "dir", "file", "foreign-link")


def make(maxdeps):
    def fn(g):
        import conductor.cli.run as cli_run
        m = g.choose("ndeps", maxdeps) + 1
        cpkg = ("", "p")[g.choose("cpkg", 2)]
        deps = []
        for i in range(m):
            kind = DEP_KINDS[g.choose("kind%d" % i, len(DEP_KINDS))]
            pkg = PKGS[g.choose("pkg%d" % i, len(PKGS))]
            writes = g.flag("writes%d" % i) if kind == "run_command" else (kind == "run_experiment")
            deps.append({"spec": TaskSpec("d%d" % i, kind, [], pkg=pkg), "writes": writes})
        cspec = TaskSpec("c", "combine", [(":%s" % d["spec"].name) if d["spec"].pkg == cpkg else d["spec"].ident for d in deps], pkg=cpkg)
        pre = PRE[g.choose("pre", len(PRE))]
        two = g.flag("second_run")
        # between the two combine runs, dependency d0 is re-run on its own (a new version the combine was not part of);
        # the second combine run is then a plain one (no --again)
        solo = two and deps[0]["spec"].kind == "run_experiment" and g.flag("dep_rerun_alone")
        proj = hrun.Project()
        try:
            proj.write_tasks([d["spec"] for d in deps] + [cspec])
            cout = proj.out / cpkg / "c.task"
            entry0 = cout / "d0"
            if pre != "none":
                cout.mkdir(parents=True)
                if pre == "dir":
                    entry0.mkdir()
                    (entry0 / "keep.txt").write_text("mine")
                elif pre == "file":
                    entry0.write_text("mine")
                else:
                    (proj.root / "elsewhere").mkdir()
                    os.symlink(str(proj.root / "elsewhere"), str(entry0))
            D = ["%s %s writes=%s" % (d["spec"].kind, d["spec"].ident, d["writes"]) for d in deps] + [
            "combine %s pre=%s two=%s dep0_rerun_alone_in_between=%s" % (cspec.ident, pre, two, solo)]
            runs = 2 if two else 1
            nontrivial = False
            for r in range(runs):
                def on_spawn(kernel, proc):
                    hrun.snapshot_on_spawn(kernel, proc)
                    d = [x for x in deps if x["spec"].name == proc.name]
                    if d and d[0]["writes"] and d[0]["spec"].kind == "run_command":
                        with open(os.path.join(proc.env["COND_OUT"], "data.txt"), "w") as fh:
                            fh.write("run %d\n" % r)
                sched = graphs.SymSched(g, all_ok=True, on_spawn=on_spawn)
                kern = fakeos.Kernel(sched, clock=fakeos.Clock(lambda i, r=r: 1000.0 + 10 * r))
                before = hrun.tree_digest(entry0) if pre in ("dir",) else None
                if r == 1 and solo:
                    ks = fakeos.Kernel(graphs.SymSched(g, all_ok=True, on_spawn=on_spawn), clock=fakeos.Clock(lambda i: 1005.0))
                    rs = hrun.invoke(cli_run.main, hrun.run_ns(task_identifier=deps[0]["spec"].ident, again=True), str(proj.root), ks)
                    g.require(rs.status == 0, "combine:run-failed", "solo re-run of %s: %r; %s" % (deps[0]["spec"].ident, rs.status, D))
                res = hrun.invoke(cli_run.main, hrun.run_ns(task_identifier=cspec.ident, again=(r == 1 and not solo)), str(proj.root), kern)
                if isinstance(res.status, str):
                    g.require(False, "combine:crash:" + res.status, "%r; run %d; %s" % (res.exc, r, D))
                written = {p.name: p.env["COND_OUT"] for p in kern.tasks()}
                d0_nonempty = deps[0]["spec"].kind != "group" and deps[0]["writes"]
                conflict = pre in ("dir", "file") and d0_nonempty
                if conflict:
                    g.require(res.status == 1 and "ERROR:" in res.err and res.error_class == "CombineOutputFileConflict",
                              "combine:conflict-not-reported", "status=%r err=%r; %s" % (res.status, res.err[-200:], D))
                    ok = (entry0.is_dir() and not entry0.is_symlink() and hrun.tree_digest(entry0) == before) if pre == "dir" else \
                        (entry0.is_file() and not entry0.is_symlink() and entry0.read_text() == "mine")
                    g.require(ok, "combine:foreign-entry-overwritten", "the pre-existing %s at %s was modified; %s" % (pre, entry0, D))
                    g.goal("non-link entry reported as a conflict")
                    break
                g.require(res.status == 0, "combine:run-failed", "run %d status=%r err=%r; %s" % (r, res.status, res.err[-200:], D))
                for d in deps:
                    s = d["spec"]
                    if s.kind == "group":
                        continue
                    target = written.get(s.name)
                    if target is None and s.kind == "run_experiment":
                        # not executed in this invocation: the selected cached version (newest; git is disabled)
                        tss = [row[1] for row in proj.index_rows() if row[0] == s.ident]
                        if tss:
                            target = str(proj.out / s.pkg / ("%s.task.%d" % (s.name, max(tss))))
                            if solo and s.name == "d0":
                                g.goal("dependency re-run on its own between two combine runs")
                    if target is None:
                        continue
                    nonempty = os.path.isdir(target) and bool(os.listdir(target))
                    link = cout / s.name
                    if nonempty:
                        nontrivial = True
                        g.require(os.path.lexists(link) and os.path.realpath(link) == os.path.realpath(target), "combine:entry-wrong-or-missing",
                                  "run %d: %s -> %s, expected the directory the dependency wrote: %s; %s" % (
                                      r, link, os.path.realpath(link) if os.path.lexists(link) else None, target, D))
                        if r == 1:
                            g.goal("re-run re-points a link to a new version")
                        if s.pkg != cpkg:
                            g.goal("dependency in another package")
                if pre == "foreign-link" and d0_nonempty:
                    g.goal("existing link replaced")
            return {"nontrivial": nontrivial, "sample": {"case": D, "entries": sorted(os.listdir(cout)) if cout.exists() else None}}
        finally:
            proj.cleanup()
    return fn



FS_BOUND = {"quick": 20, "thorough": 40}


def make_fault(bound):
    """A combine over two experiments (root and package p), run twice (the second time with --again); in one of the two
    invocations at most one file-system call under cond-out fails with EACCES (vlib.faults; invocation and position are
    decision variables).  The invocation may fail - but when it exits 0 every entry must resolve to the directory the
    dependency wrote in that invocation."""
    def fn(g):
        import conductor.cli.run as cli_run
        from vlib import faults
        deps = [TaskSpec("d0", "run_experiment", [], pkg=""), TaskSpec("d1", "run_experiment", [], pkg="p")]
        cspec = TaskSpec("c", "combine", [":d0", "//p:d1"], pkg="")
        which = g.choose("faulted_run", 2)
        k = g.choose("fault_at", bound + 1)
        proj = hrun.Project()
        try:
            proj.write_tasks(deps + [cspec])
            cout = proj.out / "c.task"
            fired = None
            for r in range(2):
                sched = graphs.SymSched(g, all_ok=True, on_spawn=hrun.snapshot_on_spawn)
                kern = fakeos.Kernel(sched, clock=fakeos.Clock(lambda i, r=r: 1000.0 + 10 * r))
                flt = faults.OneFault(k if r == which else 0, proj.out)
                res = hrun.invoke(faults.with_faults(cli_run.main, flt), hrun.run_ns(task_identifier=cspec.ident, again=(r == 1)), str(proj.root), kern)
                fired = fired or flt.fired
                D = "run %d faulted_run=%d fault=%s" % (r, which, flt.fired)
                g.note("max fault-eligible calls", flt.n)
                if isinstance(res.status, str) and not (flt.fired and res.status in ("exc:OSError", "exc:PermissionError")):
                    g.require(False, "combine:crash:" + res.status, "%r; %s" % (res.exc, D))
                if not flt.fired:
                    g.require(res.status == 0, "combine:run-failed", "status=%r err=%r; %s" % (res.status, res.err[-200:], D))
                if res.status != 0:
                    break
                written = {p.name: p.env["COND_OUT"] for p in kern.tasks()}
                for s in deps:
                    target = written.get(s.name)
                    g.require(target is not None, "combine:dependency-not-run", "%s; %s" % (s.ident, D))
                    link = cout / s.name
                    g.require(os.path.lexists(link) and os.path.realpath(link) == os.path.realpath(target), "combine:entry-wrong-or-missing",
                              "%s -> %s, expected the directory the dependency wrote: %s; cond run exited 0; %s" % (
                                  link, os.path.realpath(link) if os.path.lexists(link) else None, target, D))
            if fired:
                g.goal("injected fault fired")
            return {"nontrivial": bool(fired), "sample": {"case": "faulted_run=%d fault=%s" % (which, fired)}}
        finally:
            proj.cleanup()
    return fn


KILL_BOUND = {"quick": 48, "thorough": 96}


def make_killed(bound):
    """run; run --again killed (the process dies, no clean-up) at the k-th executed line of execution/ops/combine_outputs.py;
    run --again once more, undisturbed: it must exit 0 and every entry must resolve to the version written in that last run -
    whatever the killed run left behind in the combine's output directory."""
    def fn(g):
        import conductor.cli.run as cli_run
        from vlib import crash
        only = ("execution/ops/combine_outputs.py",)
        deps = [TaskSpec("d0", "run_experiment", [], pkg=""), TaskSpec("d1", "run_experiment", [], pkg="p")]
        cspec = TaskSpec("c", "combine", [":d0", "//p:d1"], pkg="")
        kb = g.choose("kill_block", bound // 8)
        g.shard_point()
        k = kb * 8 + g.choose("kill_offset", 8)
        proj = hrun.Project()
        try:
            proj.write_tasks(deps + [cspec])

            class W(fakeos.Sched):
                def on_spawn(self, kernel, proc):
                    graphs.output_writer(kernel, proc)

                def status_for(self, kernel, proc):
                    return fakeos.StatusExited(0)

            def run(r, kill):
                def f():
                    kern = fakeos.Kernel(W(), clock=fakeos.Clock(lambda i, r=r: 1000.0 + 10 * r))
                    return hrun.invoke(cli_run.main, hrun.run_ns(task_identifier=cspec.ident, again=(r >= 1)), str(proj.root), kern).status
                return crash.run_in_child(f, kill, only)
            r0 = run(0, None)
            g.require(r0.get("result") == 0, "combine:run-failed", "first run: %r" % (r0,))
            r1 = run(1, k)
            if "child_error" in r1:
                g.require(False, "combine:harness-child-error", "%s" % r1["child_error"])
            D = "second run killed at line event %d (%s)" % (k, r1.get("killed_at")) if r1["killed"] else "second run not killed (k=%d beyond its %s line events)" % (k, r1.get("lines"))
            r2 = run(2, None)
            g.require(r2.get("result") == 0, "combine:run-failed-after-killed-run", "third run: %r; %s" % (r2, D))
            cout = proj.out / "c.task"
            for s_ in deps:
                tss = [row[1] for row in proj.index_rows() if row[0] == s_.ident]
                g.require(len(tss) >= 2 and max(tss) >= 1020, "combine:run-did-not-record", "%s %s; %s" % (s_.ident, tss, D))
                target = str(proj.out / s_.pkg / ("%s.task.%d" % (s_.name, max(tss))))
                link = cout / s_.name
                g.require(os.path.lexists(link) and os.path.realpath(link) == os.path.realpath(target), "combine:entry-wrong-or-missing",
                          "%s -> %s, expected the version written in the last run: %s; left in c.task: %s; %s" % (
                              link, os.path.realpath(link) if os.path.lexists(link) else None, target, sorted(os.listdir(cout)), D))
            if r1["killed"]:
                g.goal("combine killed midway, then re-run")
            return {"nontrivial": bool(r1["killed"]), "sample": {"case": D}}
        finally:
            proj.cleanup()
    return fn

def scale_fn(g):
    """A combine over 12 dependencies (more than any worker/batch count), two runs."""
    import conductor.cli.run as cli_run
    cpkg = ("", "deep/er/pkg")[g.choose("cpkg", 2)]
    second = g.flag("second_run_again")
    deps = [TaskSpec("d%02d" % i, ("run_experiment", "run_command")[i % 2], [], pkg=("", "a", "a/b", "c")[i % 4]) for i in range(12)]
    cspec = TaskSpec("c", "combine", [d.ident for d in deps], pkg=cpkg)
    proj = hrun.Project()
    try:
        proj.write_tasks(deps + [cspec])
        cout = proj.out / cpkg / "c.task"
        D = "combine %s over 12 dependencies, second_run=%s" % (cspec.ident, second)
        recorded = {}
        for r in range(4 if second else 1):
            kern = fakeos.Kernel(graphs.SymSched(g, all_ok=True, on_spawn=graphs.output_writer), clock=fakeos.Clock(lambda i, r=r: 1000.0 + 10 * r))
            res = hrun.invoke(cli_run.main, hrun.run_ns(task_identifier=cspec.ident, again=(r >= 1)), str(proj.root), kern, timeout=120)
            if isinstance(res.status, str):
                g.require(False, "combine:crash:" + res.status[4:], "%s; %s" % (res.exc, D))
            g.require(res.status == 0, "combine:run-failed", "run %d status=%r; %s" % (r, res.status, D))
            written = {p.name: p.env["COND_OUT"] for p in kern.tasks()}
            for d in deps:
                link = cout / d.name
                g.require(os.path.lexists(link) and os.path.realpath(link) == os.path.realpath(written[d.name]), "combine:entry-wrong-or-missing",
                          "run %d: %s -> %s, expected %s; %s" % (r, d.name, os.path.realpath(link) if os.path.lexists(link) else None, written[d.name][-30:], D))
            g.require(sorted(os.listdir(cout)) == sorted(d.name for d in deps), "combine:entry-wrong-or-missing", "entries %s; %s" % (sorted(os.listdir(cout)), D))
            # directories of versions recorded in earlier invocations are never written into
            for path_, dig_ in recorded.items():
                g.require(hrun.tree_digest(path_) == dig_, "combine:recorded-version-directory-modified",
                          "run %d changed %s; %s" % (r, os.path.relpath(path_, str(proj.out)), D))
            for row in proj.index_rows():
                pkg_, nm_ = row[0][2:].rsplit(":", 1)
                path_ = str(proj.out / pkg_ / ("%s.task.%d" % (nm_, row[1])))
                recorded.setdefault(path_, hrun.tree_digest(path_))
        g.goal("combine over more than eight dependencies")
        return {"nontrivial": True, "sample": {"case": D}}
    finally:
        proj.cleanup()


def two_combines_fn(g):
    """Two combine tasks in one invocation, the second over a task that depends on the first: every entry of both."""
    import conductor.cli.run as cli_run
    pkg = ("", "p", "p/q")[g.choose("pkg", 3)]
    epkg = pkg if g.flag("later_task_in_same_package") else "other"
    runs = 1 + g.choose("extra_runs_again", 3)
    kinds = ("run_experiment", "run_command")
    d1 = TaskSpec("d1", kinds[g.choose("kd1", 2)], [], pkg=pkg)
    d2 = TaskSpec("d2", kinds[g.choose("kd2", 2)], [], pkg=pkg)
    c1 = TaskSpec("c1", "combine", [d1.ident, d2.ident], pkg=pkg)
    e = TaskSpec("e", "run_experiment", [c1.ident], pkg=epkg)
    c2 = TaskSpec("c2", "combine", [d1.ident, e.ident] if g.flag("d1_first") else [e.ident, d1.ident], pkg=pkg)
    specs = [d1, d2, c1, e, c2]
    # outputs of the package kept on another disk: its directory below cond-out is a symbolic link (all five tasks in that package)
    linked = g.flag("package_output_directory_is_a_symbolic_link") if (pkg and epkg == pkg) else False
    proj = hrun.Project()
    try:
        proj.write_tasks(specs)
        if linked:
            top = pkg.split("/")[0]
            (proj.root / "scratch disk" / "deep" / ("outputs of " + top)).mkdir(parents=True)
            proj.out.mkdir(exist_ok=True)
            os.symlink(str(proj.root / "scratch disk" / "deep" / ("outputs of " + top)), str(proj.out / top))
        D = "d1,d2 in //%s; c1=combine(d1,d2); e in //%s depends on c1; c2=combine(%s); %d run(s)%s" % (
            pkg, epkg, c2.deps, runs, "; cond-out/%s is a symbolic link" % pkg.split("/")[0] if linked else "")
        for r in range(runs):
            kern = fakeos.Kernel(graphs.SymSched(g, all_ok=True, on_spawn=graphs.output_writer), clock=fakeos.Clock(lambda i, r=r: 1000.0 + 10 * r))
            res = hrun.invoke(cli_run.main, hrun.run_ns(task_identifier=c2.ident, again=(r >= 1)), str(proj.root), kern, timeout=60)
            if isinstance(res.status, str):
                g.require(False, "combine:crash:" + res.status[4:], "%s; %s" % (res.exc, D))
            g.require(res.status == 0, "combine:run-failed", "run %d status=%r; %s" % (r, res.status, D))
            written = {p.name: p.env["COND_OUT"] for p in kern.tasks()}
            for comb, members in ((c1, (d1, d2)), (c2, (d1, e))):
                cout = proj.out / comb.pkg / (comb.name + ".task")
                for d in members:
                    link = cout / d.name
                    g.require(os.path.lexists(link) and os.path.realpath(link) == os.path.realpath(written[d.name]), "combine:entry-wrong-or-missing",
                              "run %d: %s/%s -> %s, expected %s; %s" % (r, comb.name, d.name, os.path.realpath(link) if os.path.lexists(link) else None,
                                                                        written[d.name][-30:], D))
                g.require(sorted(os.listdir(cout)) == sorted(d.name for d in members), "combine:entry-wrong-or-missing",
                          "%s has entries %s; %s" % (comb.name, sorted(os.listdir(cout)), D))
        g.goal("two combine steps in one invocation")
        return {"nontrivial": True, "sample": {"case": D}}
    finally:
        proj.cleanup()


def spaces(tier):
    goals = ["non-link entry reported as a conflict", "re-run re-points a link to a new version", "dependency in another package",
             "existing link replaced", "dependency re-run on its own between two combine runs"]
    sp = [Space("deps2", make(2), "1..2 dependencies of kinds {experiment, command, group} in packages {root, p, p/q}, command output "
                "empty or not, combine task in {root, p}, pre-existing entry {none, dir, file, link}, one or two runs (second with --again)",
                depth=7, goals=goals, outside=["dangling links made by hand", ">3 dependencies"])]
    sp.append(Space("fs-fault", make_fault(FS_BOUND[tier]), "combine over two experiments (root, p), run then run --again; in one of the two invocations at most one "
                    "file-system call made on behalf of Conductor under cond-out fails with EACCES (invocation and position k <= %d are decision "
                    "variables); a failing invocation is accepted, an exit 0 with a wrong or missing entry is not" % FS_BOUND[tier], depth=6,
                    goals=["injected fault fired"], outside=["more than one fault", "other errno values", "faults of stat and of calls relative to a directory fd"]))
    sp.append(Space("killed-then-rerun", make_killed(KILL_BOUND[tier]), "combine over two experiments: run; run --again killed at the k-th executed line of "
                    "execution/ops/combine_outputs.py (k < %d, a decision variable; the process dies without clean-up); run --again undisturbed: exit 0 and "
                    "every entry resolves to the version written in that last run" % KILL_BOUND[tier], depth=2,
                    goals=["combine killed midway, then re-run"], outside=["kills outside combine_outputs.py", "line granularity", "power loss"]))
    sp.append(Space("scale-twelve-deps", scale_fn, "a combine over 12 dependencies (experiments and commands in 4 packages), combine in the root or "
                    "3 packages deep, one or four runs (--again)", depth=3, goals=["combine over more than eight dependencies"]))
    sp.append(Space("two-combines-one-invocation", two_combines_fn, "5 tasks: combine c1 over d1, d2; experiment e depending on c1; combine c2 over d1 and e; "
                    "kinds of d1/d2, packages {root, p, p/q} x {same, other}, listing order, 1..3 runs (--again)", depth=8,
                    goals=["two combine steps in one invocation"]))
    if tier == "thorough":
        sp.append(Space("deps3", make(3), "1..3 dependencies, same dimensions", depth=8, tiers=("thorough",)))
    return sp


def canaries(tier):
    return [
        Canary("old-link-not-replaced",
               lambda: rewrite("conductor.execution.ops.combine_outputs", "CombineOutputs.start_execution",
                               "copy_into.unlink()", "continue")),
        Canary("link-relative-to-wrong-directory",
               lambda: rewrite("conductor.execution.ops.combine_outputs", "CombineOutputs.start_execution",
                               "os.path.relpath(dep_dir, copy_into.parent)", "os.path.relpath(dep_dir, self._output_path.parent)")),
    ]
