"""C13 - gc removes exactly the unrecorded experiment outputs.

(1) cond-out trees assembled from a catalogue of entries (recorded /
unrecorded versions in nested packages, run_command outputs, look-alike
names, look-alikes nested inside task outputs, plain files, staging
leftovers, a sentinel tree outside cond-out), presence of each entry a
solver Boolean, flags and the working directory too; an independent walk is
the oracle.  (2) SMT lemma: the languages of the regular expressions gc
applies to directory names (translated from the running module, CPython `$`
semantics) against the image of filename.task_output_dir, by z3
language-difference queries over unbounded strings.
"""
import argparse
import os
import pathlib
import re

from conductor.config import ARCHIVE_STAGING as _STAGING

import z3

from vlib import fakeos, hrun, smtstr
from vlib.runner import Space, Lemma, Canary, rewrite

ID = "C13"
LEVEL = "exploration"
SOLVER_SHARE = "medium"
RULE = ("one case = (subset of the entry catalogue present, --dry-run, --verbose, working directory) or one language-"
        "difference obligation; non-trivial = at least one entry must be deleted and at least one look-alike must be kept")
TRUSTED = ["independent oracle walk in props/c13.py", "z3 regex theory for the lemma", "real tmpfs, sqlite"]
ASSUMPTIONS = ["symlinks placed by hand directly in package directories are outside the claim"]

# (relative path, kind, recorded?)   kind: dir | file
CATALOGUE = [
    ("e.task.5", "dir", True),
    ("e.task.7", "dir", False),
    ("p/e.task.5", "dir", False),
    ("p/q/f.task.9", "dir", True),
    ("p/q/f.task.11", "dir", False),
    ("c.task/x.task.3", "dir", False),            # look-alike inside a run_command output: never touched
    ("e.task.5/y.task.2", "dir", False),          # look-alike inside a recorded version: never touched
    ("e.task.05", "dir", False),                  # not a version directory (leading zero): not an experiment output
    ("g.task.8", "file", False),                  # a plain file with an experiment-like name
    (_STAGING + "/h.task.6", "dir", False),       # leftover of a killed restore
    ("w.task.3\n", "dir", False),                 # name with a trailing newline: not an experiment output
    ("e.task.12", "dir", True),                   # recorded AFTER //p/q:f 9: the rows of //:e are not adjacent in the index
]
EXP_RE = re.compile(r"[A-Za-z0-9_-]+\.task\.[1-9][0-9]*\Z")
TASK_RE = re.compile(r"[A-Za-z0-9_-]+\.task(\.[1-9][0-9]*)?\Z")


def oracle_delete_set(out_root, recorded, follow_links=False):
    """Directories under cond-out, not inside any task output directory, whose
    name is exactly <name>.task.<positive int> and whose (package, name, ts) is
    not recorded."""
    dele = []
    stack = [out_root]
    while stack:
        cur = stack.pop()
        for name in sorted(os.listdir(cur)):
            p = os.path.join(cur, name)
            if (os.path.islink(p) and not follow_links) or not os.path.isdir(p):
                continue
            if EXP_RE.match(name):
                rel = os.path.relpath(cur, out_root)
                pkg = "" if rel == "." else rel
                nm, ts = name.rsplit(".task.", 1)
                if ("//%s:%s" % (pkg, nm), int(ts)) not in recorded:
                    dele.append(os.path.relpath(p, out_root))
                continue
            if TASK_RE.match(name):
                continue
            stack.append(p)
    return sorted(dele)


def make(cwds=("", "src"), catalogue=None):
    def fn(g):
        import conductor.cli.gc as cli_gc
        proj = hrun.Project()
        try:
            (proj.root / "src").mkdir()
            proj.write("COND", "run_experiment(name='e', run='true')\nrun_command(name='c', run='true')\n")
            present = [c for i, c in enumerate(catalogue or CATALOGUE) if g.flag("has%d" % i)]
            dry = g.flag("dry_run")
            verbose = g.flag("verbose")
            cwd = cwds[g.choose("cwd", len(cwds))] if len(cwds) > 1 else cwds[0]
            proj.out.mkdir()
            recorded = set()
            # parents first
            for rel, kind, rec in sorted(present, key=lambda c: (c[0] == "e.task.12", c[0].count("/"))):
                p = proj.out / rel
                if rec:
                    pkg, base = os.path.split(rel)
                    nm, ts = base.rsplit(".task.", 1)
                    proj.add_version("//%s:%s" % (pkg, nm), int(ts))
                    recorded.add(("//%s:%s" % (pkg, nm), int(ts)))
                elif kind == "dir":
                    p.mkdir(parents=True, exist_ok=True)
                    (p / "out.txt").write_text("data " + rel)
                else:
                    p.parent.mkdir(parents=True, exist_ok=True)
                    p.write_text("plain file")
            if not (proj.out / "version_index.sqlite").exists():
                from conductor.execution.version_index import VersionIndex
                VersionIndex.create_or_load(proj.out / "version_index.sqlite")
            sentinel = proj.root / "results" / "e.task.9"
            sentinel.mkdir(parents=True)
            (sentinel / "keep").write_text("outside cond-out")
            before = hrun.tree_digest(proj.root)
            want = oracle_delete_set(str(proj.out), recorded)
            res = hrun.invoke(cli_gc.main, argparse.Namespace(dry_run=dry, verbose=verbose, debug=False), str(proj.root / cwd),
                              fakeos.Kernel(fakeos.Sched()))
            D = "present=%s dry_run=%s verbose=%s cwd=%r" % ([c[0] for c in present], dry, verbose, cwd)
            if isinstance(res.status, str):
                g.require(False, "gc:crash:%s:cwd=%s" % (res.status[4:], "root" if not cwd else "subdir"), "%s; %s" % (res.exc, D))
            g.require(res.status == 0, "gc:failed", "status=%r err=%r; %s" % (res.status, res.err[-200:], D))
            after = hrun.tree_digest(proj.root)
            gone = sorted(k for k in before if k not in after)
            changed = sorted(k for k in after if k in before and before[k] != after[k] and not k.endswith("version_index.sqlite"))
            added = sorted(k for k in after if k not in before)
            g.require(not changed and not added, "gc:modified-something", "changed %s added %s; %s" % (changed, added, D))
            if dry:
                g.require(not gone, "gc:dry-run-deleted", "removed %s; %s" % (gone, D))
                printed = []
                for line in res.out.split("\n"):
                    if line.startswith("Would delete "):
                        printed.append(os.path.relpath(os.path.normpath(os.path.join(str(proj.root / cwd), line[len("Would delete "):])), str(proj.out)))
                g.require(sorted(printed) == want, "gc:dry-run-listing", "listed %s, a real gc would delete %s; %s" % (sorted(printed), want, D))
            else:
                expect_gone = sorted(k for k in before if any(
                    k == os.path.join("cond-out", w) or k.startswith(os.path.join("cond-out", w) + os.sep) for w in want))
                extra = [k for k in gone if k not in expect_gone]
                missing = [k for k in expect_gone if k not in gone]
                g.require(not extra, "gc:deleted-too-much", "removed %s which is not an unrecorded experiment output; %s" % (extra[:6], D))
                g.require(not missing, "gc:left-unrecorded-output", "did not remove %s; %s" % (missing[:6], D))
            if want and len(present) > len(want):
                g.goal("something to delete next to something to keep")
            if any(c[0] in ("c.task/x.task.3", "e.task.5/y.task.2") for c in present):
                g.goal("look-alike nested inside a task output")
            if cwd and (dry or verbose):
                g.goal("listing from a sub-directory")
            return {"nontrivial": bool(want) and len(present) > len(want), "sample": {"case": D, "delete_set": want}}
        finally:
            proj.cleanup()
    return fn



FAULT_TREE = [c for c in CATALOGUE if c[0] in ("e.task.5", "e.task.7", "p/e.task.5", "p/q/f.task.9", "p/q/f.task.11", "e.task.12")]
FS_BOUND = {"quick": 24, "thorough": 40}
SQL_BOUND = {"quick": 6, "thorough": 10}


def make_fault(kind, bound):
    """gc on a fixed tree (3 recorded versions, 3 unrecorded outputs, a run_command output) with at most one injected failure
    (vlib.faults): the k-th file-system call under cond-out fails with EACCES / the k-th statement on the version index fails
    with 'database is locked'.  A gc that fails because of the fault is acceptable; deleting or modifying anything that is not
    an unrecorded experiment output is not, and --dry-run must still delete nothing."""
    def fn(g):
        import conductor.cli.gc as cli_gc
        from vlib import faults
        proj = hrun.Project()
        try:
            proj.write("COND", "run_experiment(name='e', run='true')\nrun_command(name='c', run='true')\n")
            dry = g.flag("dry_run")
            k = g.choose("fault_at", bound + 1)
            proj.out.mkdir()
            recorded = set()
            for rel, kind_, rec in sorted(FAULT_TREE, key=lambda c: (c[0] == "e.task.12", c[0].count("/"))):
                if rec:
                    pkg, base = os.path.split(rel)
                    nm, ts = base.rsplit(".task.", 1)
                    proj.add_version("//%s:%s" % (pkg, nm), int(ts))
                    recorded.add(("//%s:%s" % (pkg, nm), int(ts)))
                else:
                    (proj.out / rel / "sub").mkdir(parents=True, exist_ok=True)
                    (proj.out / rel / "sub" / "out.txt").write_text("data " + rel)
            (proj.out / "c.task").mkdir()
            (proj.out / "c.task" / "result.txt").write_text("run_command output")
            (proj.out / "p" / "c2.task").mkdir()
            (proj.out / "p" / "c2.task" / "result.txt").write_text("run_command output")
            before = hrun.tree_digest(proj.root)
            rows_before = proj.index_rows()
            want = oracle_delete_set(str(proj.out), recorded)
            flt = faults.OneFault(k, proj.out) if kind == "fs" else faults.OneSqlFault(k)
            res = hrun.invoke(faults.with_faults(cli_gc.main, flt), argparse.Namespace(dry_run=dry, verbose=False, debug=False), str(proj.root),
                              fakeos.Kernel(fakeos.Sched()))
            D = "dry_run=%s fault=%s" % (dry, flt.fired)
            g.note("max fault-eligible calls", flt.n)
            if isinstance(res.status, str) and not (flt.fired and res.status in ("exc:OSError", "exc:PermissionError", "exc:OperationalError")):
                g.require(False, "gc:crash:%s:fault" % res.status[4:], "%s; %s" % (res.exc, D))
            if not flt.fired:
                g.require(res.status == 0, "gc:failed", "status=%r err=%r; %s" % (res.status, res.err[-200:], D))
            after = hrun.tree_digest(proj.root)
            gone = sorted(x for x in before if x not in after)
            changed = sorted(x for x in after if x in before and before[x] != after[x] and not x.endswith("version_index.sqlite"))
            added = sorted(x for x in after if x not in before)
            g.require(not changed and not added, "gc:modified-something", "changed %s added %s; %s" % (changed, added, D))
            g.require(proj.index_rows() == rows_before, "gc:index-rows-changed", "%s -> %s; %s" % (rows_before, proj.index_rows(), D))
            if dry:
                g.require(not gone, "gc:dry-run-deleted", "removed %s; %s" % (gone, D))
            else:
                expect_gone = sorted(x for x in before if any(
                    x == os.path.join("cond-out", w) or x.startswith(os.path.join("cond-out", w) + os.sep) for w in want))
                extra = [x for x in gone if x not in expect_gone]
                missing = [x for x in expect_gone if x not in gone]
                g.require(not extra, "gc:deleted-too-much", "removed %s which is not an unrecorded experiment output; %s" % (extra[:6], D))
                if not flt.fired:
                    g.require(not missing, "gc:left-unrecorded-output", "did not remove %s; %s" % (missing[:6], D))
            if flt.fired:
                g.goal("injected fault fired")
            return {"nontrivial": bool(flt.fired), "sample": {"case": D, "delete_set": want}}
        finally:
            proj.cleanup()
    return fn

# ---------------------------------------------------------------- lemma

def lemma_names():
    import conductor.cli.gc as gcmod
    import conductor.filename as f
    from conductor.task_identifier import TaskIdentifier
    from conductor.execution.version_index import Version
    out = {"obligations": 0, "discharged": 0, "queries": 0, "solver_s": 0.0, "violations": [], "samples": [], "inconclusive": []}
    pats = {k: v for k, v in vars(gcmod).items() if isinstance(v, re.Pattern)}
    if not pats:
        out["inconclusive"].append("no compiled pattern found in conductor.cli.gc")
        return out
    # which pattern/mode gc applies to a directory name: observed by running gc's classification on probes
    active = [None]
    uses = set()

    class Spy(smtstr.PatternShim):
        def _do(self, mode, s, *a):
            uses.add((self._real.pattern, mode))
            return getattr(self._real, mode)(s, *a)
    saved = {}
    for k, v in pats.items():
        saved[k] = v
        setattr(gcmod, k, Spy(v, active))
    proj = hrun.Project()
    try:
        (proj.out).mkdir()
        (proj.out / "probe.task.3").mkdir()
        (proj.out / "probe.task").mkdir()
        from conductor.execution.version_index import VersionIndex
        VersionIndex.create_or_load(proj.out / "version_index.sqlite")
        hrun.invoke(gcmod.main, argparse.Namespace(dry_run=True, verbose=False, debug=False), str(proj.root), None)
    finally:
        for k, v in saved.items():
            setattr(gcmod, k, v)
        proj.cleanup()
    ident = z3.Plus(z3.Union(z3.Range("a", "z"), z3.Range("A", "Z"), z3.Range("0", "9"), z3.Re(z3.StringVal("_")), z3.Re(z3.StringVal("-"))))
    digits = z3.Concat(z3.Range("1", "9"), z3.Star(z3.Range("0", "9")))
    tid = TaskIdentifier(pathlib.Path(), "zqname")
    v = f.task_output_dir(tid, Version(987654321, None, False))
    u = f.task_output_dir(tid)
    def templ(s, parts):
        rs = []
        rest = s
        for tok, lang in parts:
            j = rest.find(tok)
            if j > 0:
                rs.append(z3.Re(z3.StringVal(rest[:j])))
            rs.append(lang)
            rest = rest[j + len(tok):]
        if rest:
            rs.append(z3.Re(z3.StringVal(rest)))
        return z3.Concat(*rs) if len(rs) > 1 else rs[0]
    T_versioned = templ(v, [("zqname", ident), ("987654321", digits)])
    T_plain = templ(u, [("zqname", ident)])
    s = z3.String("s")
    exp_uses = [(p, m) for p, m in uses if "timestamp" in p]
    reg_uses = [(p, m) for p, m in uses if "timestamp" not in p]
    if not exp_uses or not reg_uses:
        out["inconclusive"].append("gc did not apply both patterns to the probe names: %s" % sorted(uses))
    for label, T, us in (("experiment output name", T_versioned, exp_uses), ("task output name", T_plain, reg_uses)):
        for pat, mode in us:
            try:
                L = smtstr.language(pat, mode)
            except smtstr.Unsupported as ex:
                out["inconclusive"].append("%s: %s" % (pat, ex))
                continue
            for what, cs in (("producible name not recognised", z3.InRe(s, z3.Intersect(T, z3.Complement(L)))),
                             ("recognised name outside the documented shape", z3.InRe(s, z3.Intersect(L, z3.Complement(T))))):
                out["obligations"] += 1
                class St:
                    queries = 0
                    solver_s = 0.0
                r, wit = smtstr.solve([cs], s, stats=St)
                out["queries"] += 1
                out["solver_s"] += St.solver_s
                if r == "unsat":
                    out["discharged"] += 1
                elif r == "sat":
                    w = smtstr.z3_unescape(wit)
                    real = getattr(re.compile(pat), mode)(w) is not None
                    inT = (re.fullmatch(r"[A-Za-z0-9_-]+\.task\.[1-9][0-9]*", w) if T is T_versioned else re.fullmatch(r"[A-Za-z0-9_-]+\.task", w)) is not None
                    if real != inT:
                        out["violations"].append(("gc:name-recognition:" + ("trailing-newline" if w.endswith("\n") else "other") + ":" + label.split()[0],
                                                  "%s: %s: %r (pattern %r via %s)" % (label, what, w, pat, mode), w))
                    else:
                        out["inconclusive"].append("witness %r did not reproduce" % w)
                else:
                    out["inconclusive"].append("%s: solver %s" % (what, r))
    out["samples"].append({"patterns_applied_by_gc": sorted(uses), "templates": [v, u]})
    return out


def scale_fn(g):
    """Hundreds of recorded versions (rows of two tasks interleaved) and more than eight unrecorded outputs in one package."""
    import conductor.cli.gc as cli_gc
    nrec = (101, 136)[g.choose("recorded", 2)]
    nun = (9, 12)[g.choose("unrecorded", 2)]
    dry = g.flag("dry_run")
    linked = ("no", "cond-out", "package-directory")[g.choose("output_directory_is_a_symbolic_link", 3)]
    proj = hrun.Project()
    try:
        proj.write("p/COND", "run_experiment(name='a', run='true')\nrun_experiment(name='b', run='true')\n")
        # outputs kept on another disk: cond-out itself, or the directory of package p below it, is a symbolic link
        if linked == "cond-out":
            (proj.root / "scratch disk").mkdir()
            os.symlink(str(proj.root / "scratch disk"), str(proj.out))
        elif linked == "package-directory":
            (proj.root / "scratch disk" / "deep" / "outputs of p").mkdir(parents=True)
            proj.out.mkdir()
            os.symlink(str(proj.root / "scratch disk" / "deep" / "outputs of p"), str(proj.out / "p"))
        recorded = set()
        ties = g.flag("equal_timestamps_across_tasks")
        if ties:
            # three tasks recorded at identical timestamps (possible after restores): every page/group boundary splits a tie
            for i in range(nrec // 3 + 1):
                for ident in ("//p:a", "//p:b", "//p/q/r/s:c"):
                    proj.add_version(ident, 1000 + i, files={"out.txt": b"x"})
                    recorded.add((ident, 1000 + i))
        else:
            # //p:a gets most versions, //p:b a few with timestamps in between (so that pages / groups interleave)
            for i in range(nrec):
                ident = "//p:b" if i % 25 == 7 else "//p:a"
                proj.add_version(ident, 1000 + i, files={"out.txt": b"x"})
                recorded.add((ident, 1000 + i))
        # recorded and unrecorded outputs in deeply nested packages
        proj.add_version("//l1/l2/l3:deep", 77, files={"out.txt": b"x"})
        proj.add_version("//l1/l2/l3/l4:deeper", 78, files={"out.txt": b"x"})
        recorded.update({("//l1/l2/l3:deep", 77), ("//l1/l2/l3/l4:deeper", 78)})
        (proj.out / "l1/l2/l3/deep.task.99").mkdir()
        (proj.out / "l1/l2/l3/l4/deeper.task.99").mkdir()
        for j in range(nun):
            d = proj.out / "p" / ("a.task.%d" % (5000 + j))
            d.mkdir(parents=True)
            (d / "partial.txt").write_text("failed run")
        def everything():
            """Every directory and file reachable from cond-out (links followed), relative to it."""
            seen_ = set()
            for cur_, dirs_, files_ in os.walk(str(proj.out), followlinks=True):
                for n_ in dirs_ + files_:
                    seen_.add(os.path.relpath(os.path.join(cur_, n_), str(proj.out)))
            return seen_
        before = everything()
        want = oracle_delete_set(str(proj.out), recorded, follow_links=(linked != "no"))
        res = hrun.invoke(cli_gc.main, argparse.Namespace(dry_run=dry, verbose=False, debug=False), str(proj.root), fakeos.Kernel(fakeos.Sched()), timeout=120)
        D = "%d recorded versions of //p:a and //p:b, %d unrecorded outputs of //p:a, dry_run=%s, symbolic link: %s" % (nrec, nun, dry, linked)
        if isinstance(res.status, str):
            g.require(False, "gc:crash:" + res.status[4:], "%s; %s" % (res.exc, D))
        after = everything()
        gone_all = before - after
        gone_dirs = sorted(k for k in gone_all if ".task." in os.path.basename(k) and not any(
            os.path.dirname(k) == x or os.path.dirname(k).startswith(x + os.sep) for x in gone_all))
        if dry:
            printed = sorted(os.path.relpath(os.path.normpath(os.path.join(str(proj.root), l[len("Would delete "):])), str(proj.out))
                             for l in res.out.split("\n") if l.startswith("Would delete "))
            g.require(not gone_dirs, "gc:dry-run-deleted", "%s; %s" % (gone_dirs[:4], D))
            g.require(printed == want, "gc:dry-run-listing", "listed %d directories, a real gc would delete %d (e.g. %s); %s" % (
                len(printed), len(want), sorted(set(printed) ^ set(want))[:4], D))
        else:
            got = sorted(gone_dirs)
            g.require(set(got) <= set(want), "gc:deleted-too-much", "removed recorded/other directories %s; %s" % (sorted(set(got) - set(want))[:4], D))
            g.require(set(want) <= set(got), "gc:left-unrecorded-output", "did not remove %s; %s" % (sorted(set(want) - set(got))[:4], D))
        g.goal("more than 100 recorded versions")
        return {"nontrivial": True, "sample": {"case": D, "to_delete": len(want)}}
    finally:
        proj.cleanup()


def spaces(tier):
    return _spaces(tier) + [
        Space("fs-fault", make_fault("fs", FS_BOUND[tier]), "gc / gc --dry-run on a fixed tree (3 recorded versions, 3 unrecorded outputs with a sub-directory each, "
              "2 run_command outputs); at most one file-system call made on behalf of Conductor under cond-out (listdir, scandir, mkdir, rmdir, open, "
              "unlink, ...) fails with EACCES, which one (k <= %d) is a decision variable; a failing gc is accepted, deleting anything else is not" % FS_BOUND[tier],
              depth=3, goals=["injected fault fired"], outside=["more than one fault", "other errno values", "faults in calls relative to a directory fd"]),
        Space("sql-fault", make_fault("sql", SQL_BOUND[tier]), "same tree; at most one statement on the version index fails with 'database is locked' "
              "(k <= %d a decision variable)" % SQL_BOUND[tier], depth=3, goals=["injected fault fired"], outside=["other sqlite errors"])]


def _spaces(tier):
    goals = ["something to delete next to something to keep", "look-alike nested inside a task output", "listing from a sub-directory"]
    return [Space("scale-rows-and-leftovers", scale_fn, "101 / 136 recorded versions of two tasks (rows interleaved) + 9 / 12 unrecorded outputs in the "
                  "same package, packages four levels deep, equal timestamps across tasks, cond-out or a package directory below it being a "
                  "symbolic link to another disk; gc and gc --dry-run", depth=4, goals=["more than 100 recorded versions"]),
            ] + ([Space("catalogue-15", make(catalogue=CATALOGUE + [("l1/l2/l3/d.task.4", "dir", True), ("l1/l2/l3/d.task.6", "dir", False),
                                                                       ("p/q/f.task.9/f.task.11", "dir", False)]),
                        "every subset of a 15-entry catalogue (the 12 entries + recorded / unrecorded outputs three packages deep + a look-alike "
                        "nested in a recorded version of the same task) x --dry-run x --verbose x working directory", depth=9, tiers=("thorough",))]
                 if tier == "thorough" else []) + [
            Space("catalogue-12", make(), "every subset of a 12-entry catalogue (2^12 trees) x --dry-run x --verbose x working directory "
                  "{project root, a sub-directory}", depth=9, goals=goals, outside=["symlinks placed by hand inside package directories"])]


def lemmas(tier):
    return [Lemma("gc-name-recognition", lemma_names, "the patterns gc applies to directory names vs the image of filename.task_output_dir; unbounded strings")]


def canaries(tier):
    return [
        Canary("gc-descends-into-task-directories",
               lambda: rewrite("conductor.cli.gc", "main", "if _REGULAR_TASK_REGEX.match(inner.name) is None:", "if True:"), space="catalogue-12"),
        Canary("gc-membership-test-inverted",
               lambda: rewrite("conductor.cli.gc", "main", "not in all_versions", "in all_versions"), space="catalogue-12"),
    ]
