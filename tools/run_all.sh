#!/bin/bash
# Runs every check of one tier in sequence; prints one summary line each. usage: run_all.sh quick|thorough
cd /verif
tier=${1:-quick}
for i in $(seq -w 1 20); do
  p=C$i; t0=$(date +%s)
  ./check $p --tier $tier > /tmp/runall-$p.log 2>&1; rc=$?
  echo "$p exit=$rc $(( $(date +%s) - t0 ))s $(grep "^$p tier" /tmp/runall-$p.log | cut -c1-200)"
  grep "^VIOLATION\|^INCONCLUSIVE\|^KNOWN" /tmp/runall-$p.log | cut -c1-300 | head -5
done
