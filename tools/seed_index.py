#!/usr/bin/env python3
import glob, json, os
rows = []
for f in sorted(glob.glob("/verif/seeded/*/meta.json")):
    m = json.load(open(f))
    needs = (m.get("needs") or "").replace("\n", " ")
    first = needs.split("**")[0] if needs else ""
    rows.append((m["name"], "yes" if m.get("confirmed") else "NO", ", ".join(x.replace("./check ", "") for x in m.get("detected_by", [])) or "— (not detected)",
                 "; ".join(s.split(" ", 1)[0].replace("signature=", "") for r in m.get("ran", []) if r["exit"] == 1 for s in r.get("signatures", [])[:2])))
with open("/verif/seeded/INDEX.md", "w") as fh:
    fh.write("| seeded change | confirmed | detected by | signatures |\n|---|---|---|---|\n")
    for r in rows:
        fh.write("| %s | %s | %s | %s |\n" % r)
print(open("/verif/seeded/INDEX.md").read())
