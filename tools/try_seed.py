#!/usr/bin/env python3
"""Confirm a seeded change and run checks against it, in a scratch worktree of /repo (so that /repo itself
stays untouched and other work can go on in parallel).
usage: try_seed.py <seed-dir containing patch.diff + demo.*> <name> <PROP[,PROP...]> [--tier quick] [--keep]
 1. demo on the unchanged tree must pass; 2. patch applied: pinned test baseline must still pass, demo must fail;
 3. the listed checks run against the patched tree (PYTHONPATH=<worktree>/src): expected exit 1 + VIOLATION;
 4. the worktree is removed.  --keep stores /verif/seeded/<name>/ (patch.diff, demo, notes, meta.json)."""
import json, os, shutil, subprocess, sys, time
seed, name, props = sys.argv[1], sys.argv[2], [p for p in sys.argv[3].split(",") if p]
tier = sys.argv[sys.argv.index("--tier") + 1] if "--tier" in sys.argv else "quick"
keep = "--keep" in sys.argv
demo = [f for f in os.listdir(seed) if f.startswith("demo.")][0]
wt = "/tmp/seedwt-" + name
subprocess.run(["git", "-C", "/repo", "worktree", "remove", "--force", wt], capture_output=True)
subprocess.run(["git", "-C", "/repo", "worktree", "add", "--detach", wt, "HEAD"], check=True, capture_output=True)
def run_demo(src):
    cmd = ["/venv/bin/python", demo] if demo.endswith(".py") else ["bash", demo]
    try:
        p = subprocess.run(cmd, cwd=seed, env=dict(os.environ, CONDUCTOR_SRC=src, PYTHONPATH=src), capture_output=True, text=True, timeout=900)
        return p.returncode, (p.stdout + p.stderr)[-400:]
    except subprocess.TimeoutExpired:
        return 124, "timeout"
meta = {"name": name, "breaks": props, "ran": [], "evaluated_in": "scratch worktree of /repo HEAD " +
        subprocess.run(["git", "-C", "/repo", "log", "--format=%h", "-1"], capture_output=True, text=True).stdout.strip()}
try:
    rc0, out0 = run_demo(wt + "/src")
    meta["demo_unchanged_tree"] = rc0
    print("demo on unchanged tree: exit", rc0, "" if rc0 == 0 else out0)
    patch = os.path.join(seed, "patch.diff")
    subprocess.run(["git", "-C", wt, "apply", os.path.abspath(patch)], check=True)
    env = dict(os.environ, VERIF_REPO=wt, PYTHONPATH=wt + "/src")
    b = subprocess.run(["python3", "/verif/tools/baseline.py"], capture_output=True, text=True, env=env)
    meta["baseline_with_change"] = b.stdout.strip()
    print("baseline with change:", b.stdout.strip())
    rc1, out1 = run_demo(wt + "/src")
    meta["demo_changed_tree"] = rc1
    print("demo with change: exit", rc1)
    for p in props:
        t = time.time()
        r = subprocess.run(["/verif/check", p, "--tier", tier, "--no-canaries"], capture_output=True, text=True, cwd="/verif",
                           env=dict(env, VERIF_EVIDENCE_DIR="/tmp/seed-evidence"))
        lines = [l for l in r.stdout.splitlines() if l.startswith(("VIOLATION", "  signature", "KNOWN", "INCONCLUSIVE", p + " tier"))]
        print("check %s --tier %s: exit %d (%.0fs)" % (p, tier, r.returncode, time.time() - t))
        for l in lines[:8]:
            print("   ", l[:400])
        meta["ran"].append({"check": "./check %s --tier %s" % (p, tier), "exit": r.returncode,
                            "signatures": [l.strip()[:300] for l in lines if l.startswith("  signature")][:6]})
finally:
    subprocess.run(["git", "-C", "/repo", "worktree", "remove", "--force", wt], capture_output=True)
if keep:
    d = "/verif/seeded/" + name
    os.makedirs(d, exist_ok=True)
    old = {}
    if os.path.exists(d + "/meta.json"):
        old = json.load(open(d + "/meta.json"))
    shutil.copy(patch, d + "/patch.diff")
    shutil.copy(os.path.join(seed, demo), d + "/" + demo)
    if os.path.exists(os.path.join(seed, "notes.md")):
        shutil.copy(os.path.join(seed, "notes.md"), d + "/notes.md")
        meta["needs"] = open(os.path.join(seed, "notes.md")).read()[:1500]
    meta["confirmed"] = (rc0 == 0 and meta.get("demo_changed_tree") not in (0, None) and "missing: []" in meta.get("baseline_with_change", ""))
    prev = [r for r in old.get("ran", []) if r["check"] not in [x["check"] for x in meta["ran"]]]
    meta["ran"] = prev + meta["ran"]
    meta["detected_by"] = [r["check"] for r in meta["ran"] if r["exit"] == 1]
    json.dump(meta, open(d + "/meta.json", "w"), indent=1)
    print("kept as", d, "confirmed:", meta["confirmed"], "detected_by:", meta["detected_by"])
