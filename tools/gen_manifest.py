#!/usr/bin/env python3
"""Generates /verif/MANIFEST.json from the property modules (level, technique, bounds)."""
import importlib, json, os, sys
sys.path.insert(0, "/verif")
LEVEL_TEXT = {
 "C01": "Bounded symbolic model checking of the real cond-run code over the fake kernel: holds for every graph / listing order / kind vector / flags / --jobs / completion order / exit status inside the stated bounds (N<=3 quick, N<=4 thorough), plus one inductive step of the executor from an arbitrary valid state (dependents enqueued iff all dependencies finished; any graph size).",
 "C02": "Bounded exploration of the real planner+executor with the caching rule as oracle (N<=3 quick, N=4 thorough); the at-least dimension is covered by C05's space.",
 "C03": "Bounded symbolic model checking: exit statuses, signals, launch failures, batched SIGCHLD and --stop-early are solver variables; report and exit status compared with the oracle.",
 "C04": "Bounded symbolic model checking of the slot gate / slot stack (--jobs symbolic, every completion order, one failure, ambient COND_SLOT bit; N<=3 plus a 5-task fan-in family) and an inductive invariant of the executor checked on one real launch step and one real wait step from an arbitrary valid state (<=4 slots, any graph size, any run length).",
 "C05": "Symbolic commit DAG (parents as solver Booleans, ancestry/distance as z3 terms), documented rule as z3 terms, 'pc => observed == documented' discharged per path; emulator validated against /usr/bin/git.",
 "C06": "Symbolic exit status in-process plus kill-point enumeration (k a solver variable over every executed line of the anchored modules) for run/archive/gc/restore sequences; invariant checked through a fresh sqlite connection.",
 "C07": "Bounded exploration of the environment contract at every spawn (graphs N<=3, package layouts, cache bits, decorations) with conductor.lib evaluated inside the task environment.",
 "C08": "Generator on unbounded z3 integers (no monotonic clock assumed) + histories of <=3 invocations with a symbolic clock second, incl. restores of old/future archives.",
 "C09": "Adversarial kernel: early exits at kernel-call boundaries, deferred/batched SIGCHLD (a signal that arrives before read() is entered does not interrupt it; wake-up descriptor modelled), an unrelated child, job control; the real Popen/_cleanup/__del__ code runs on top; <=2 schedule deviations quick, <=3 thorough; stub contract compared with real processes.",
 "C10": "Exploration of chunk schedules (lengths around the tee buffer and pipe buffer, both streams, interleaving) through the real tee threads; byte values are not symbolic.",
 "C11": "Exploration of archive/restore over generated projects (nested packages, leading-hyphen names, closure shapes, version sets, symlink trees) with real tar/sqlite; selection rule as oracle.",
 "C12": "Fault enumeration: 6 corruption kinds x prior states x kill at every executed line of the anchored modules; all-or-nothing checked through a fresh sqlite connection.",
 "C13": "Exhaustive exploration of 2^12 cond-out trees x flags x cwd against an independent walk + z3 regex-language lemma (unbounded strings) for the directory-name patterns.",
 "C14": "Exhaustive exploration of all directed graphs on 3 names (4 in thorough) incl. self-loops, undefined targets, duplicate listings in two spellings; run --check, run and whole-project validation (twice).",
 "C15": "Exploration of COND sources generated from a typed value pool (<=2 deviations), include variants and raising bodies against the documented schema as a predicate.",
 "C16": "Fault enumeration: SIGINT/SIGTERM handler invoked at every executed line of conductor.* (k a solver variable), plus blocked reads, over parallel and failing scenarios.",
 "C17": "Differential exploration: 15 command lines x 3 project states x 5 working directories (+ outside) against the same command from the project root.",
 "C18": "Exploration of combine over dependencies of every kind in nested packages, pre-existing entries, two runs.",
 "C19": "Translation validation: group form vs reference desugaring through the real loader and the real run (tasks, spawn traces, outputs).",
 "C20": "SMT lemmas over unbounded strings: regular-language equivalence of concolically extracted accept-sets with the grammar (z3), unambiguous decomposition and injective output locations (cvc5), solver-enumerated round trips.",
}
TECH = {
 "model_checking": "solver-based symbolic execution of the real code (z3, symx engine): path conditions + assertion queries, bounded",
 "exploration": "symbolic execution of the real code with the symx engine (z3): bounded-exhaustive over solver-chosen structural inputs",
 "fault_enumeration": "symx engine (z3): fault index k as a solver variable over all executed lines, real code re-executed per point",
 "translation_validation": "symx engine (z3) enumerating program pairs; group form vs reference expansion through the real loader/executor",
 "other": "SMT string lemmas generated from the running code: z3 regex language difference, cvc5 word equations",
}
TECH_OVERRIDE = {"C05": "z3: symbolic commit DAG, documented rule as z3 terms, implication discharged per path of the real selection code",
                 "C13": "symx exploration of cond-out trees + z3 regex-language lemma generated from gc's patterns",
                 "C08": "z3 obligations on unbounded integers over the paths of the real version generator + symbolic-clock histories"}
checks = []
for i in range(1, 21):
    pid = "C%02d" % i
    mod = importlib.import_module("props." + pid.lower())
    has_thorough = True
    checks.append({
        "property_id": pid,
        "quick_cmd": "./check %s --tier quick" % pid,
        "thorough_cmd": "./check %s --tier thorough" % pid,
        "evidence_file": "evidence/%s.json" % pid,
        "replay_cmd_template": "./check %s --replay {path}" % pid,
        "engine": "symx" if pid != "C20" else "smtstr",
        "level_claimed": {"category": mod.LEVEL, "text": LEVEL_TEXT[pid] + " Not a proof outside the stated bounds.", "design_ref": "DESIGN.md section 7/%s and section 13" % pid},
        "level_note": "Trusted: " + "; ".join(getattr(mod, "TRUSTED", [])) + ". Assumed: " + "; ".join(getattr(mod, "ASSUMPTIONS", [])),
        "technique": TECH_OVERRIDE.get(pid, TECH[mod.LEVEL]),
    })
man = {
 "version": 1,
 "setup_cmd": "./setup.sh",
 "hooks": {"guard": "CONDUCTOR_VERIF",
           "enable": "no source hooks exist: every stub is installed from outside at the OS/library boundary (attributes of os, signal, subprocess, time); the guard name is reserved and unused",
           "baseline_off_cmd": "python3 /verif/tools/baseline.py", "source_commits": [], "add_only": True},
 "engines": [
  {"name": "symx", "path": "vlib/symx.py", "serves_properties": ["C%02d" % i for i in range(1, 20)],
   "kind_free_text": "z3-backed symbolic execution of the real Python functions (SymBool/SymInt proxies, DFS by replay, push/pop feasibility and assertion queries, sharded over 16 processes), hosted by the fake kernel vlib/fakeos.py"},
  {"name": "smtstr", "path": "vlib/smtstr.py", "serves_properties": ["C20", "C13"],
   "kind_free_text": "sre -> z3 regex translation with CPython semantics, concolic accept-set extraction, z3 language-difference queries, cvc5 word equations"}],
 "checks": checks,
 "notes": "Exit status of every check: 0 held on everything explored (KNOWN-FINDING lines possible), 1 VIOLATION (reproduced by concrete replay), 2 inconclusive / harness error (never a pass, never an alarm). Genuine defects found are repaired by fix: commits in /repo and listed in known_findings.txt.",
 "not_applicable": [],
}
json.dump(man, open("/verif/MANIFEST.json", "w"), indent=1)
print("wrote MANIFEST.json with", len(checks), "checks")
