#!/usr/bin/env python3
"""Debug helper: explore the first N paths of one space in-process.  usage: paths.py C16 par3-j2 200 [tier]"""
import sys, time, tempfile, shutil, collections
sys.path.insert(0, "/verif")
from vlib import hrun, runner
import importlib
pid, space, n = sys.argv[1], sys.argv[2], int(sys.argv[3])
tier = sys.argv[4] if len(sys.argv) > 4 else "thorough"
mod = importlib.import_module("props." + pid.lower())
sp = [s for s in mod.spaces(tier) if s.name == space][0]
sc = tempfile.mkdtemp(dir="/dev/shm", prefix="verif-dbg-"); hrun.SCRATCH_BASE = sc
t = time.perf_counter()
r = runner._explore_unit(sp, None, max_paths=n)
dt = time.perf_counter() - t
shutil.rmtree(sc, ignore_errors=True)
print("paths", r["stats"]["paths"], "%.1fs" % dt, "%.1f/s" % (r["stats"]["paths"] / dt), "exhausted", r["exhausted"])
print("goals", dict(r["goals"]))
c = collections.Counter(v["sig"] for v in r["violations"])
for v in r["violations"][:int(sys.argv[5]) if len(sys.argv) > 5 else 8]:
    print("VIOL", v["sig"], "|", v["detail"][:500])
print("inconclusive", r["inconclusive"][:3])
print("samples", r["samples"][:1])
