#!/usr/bin/env python3
"""Run the repository's pinned test command (hooks guard OFF) and compare with BASELINE.json's stable_pass list."""
import json, os, subprocess, sys, tempfile, xml.etree.ElementTree as ET
base = json.load(open("/root/.vp/BASELINE.json"))
env = dict(os.environ); env.pop("CONDUCTOR_VERIF", None)
with tempfile.TemporaryDirectory() as d:
    x = os.path.join(d, "j.xml")
    cmd = base["cmd"].replace("<file>", x)
    repo = os.environ.get("VERIF_REPO")
    if repo:      # a scratch worktree of /repo (seeded-change evaluation)
        cmd = cmd.replace("cd /repo", "cd " + repo)
        env["PYTHONPATH"] = repo + "/src"
    subprocess.run(cmd, shell=True, env=env, stdout=subprocess.DEVNULL, stderr=subprocess.DEVNULL)
    passed = set()
    for tc in ET.parse(x).getroot().iter("testcase"):
        if not any(c.tag in ("failure", "error", "skipped") for c in tc):
            passed.add(tc.get("classname") + "::" + tc.get("name"))
missing = [t for t in base["stable_pass"] if t not in passed]
print("baseline stable_pass: %d, passing now: %d, missing: %s" % (len(base["stable_pass"]), len(base["stable_pass"]) - len(missing), missing))
sys.exit(1 if missing else 0)
