#!/usr/bin/env python3
"""Prints the prompt for a seeding sub-agent: only the property text and its own worktree (nothing from /verif)."""
import json, sys
pid, wt = sys.argv[1], sys.argv[2]
import os
prior = json.load(open("/tmp/prior_seeds.json")).get(pid, []) if os.path.exists("/tmp/prior_seeds.json") and len(sys.argv) > 3 else []
ALREADY = ""
LARGE = ""
if len(sys.argv) > 3 and sys.argv[3] == "round3":
    LARGE = "Additional requirement for this round: each of your changes must only manifest on something LARGER or LONGER than a small example - e.g. at least five or six tasks in the graph, three or more recorded versions, many instances, deeply nested packages, long names or values, a history of several commands, four or more git commits, more than two parallel slots - so that nobody who only tries small cases (graphs of up to four tasks, one or two versions, short names) can see it. Say in notes.md what the smallest manifesting case is.\n\n"
if len(sys.argv) > 3 and sys.argv[3] == "round4":
    LARGE = "Additional requirement for this round: each of your changes must only manifest in an unusual ENVIRONMENT or HISTORY (not merely on a large input): for example particular environment variables (HOME, TMPDIR, LANG/LC_ALL, PYTHONHASHSEED, COND_* variables inherited from an outer cond invocation), a project reached through a symbolic link or a path containing spaces/unicode, read-only or pre-existing files and directories, unusual but legal cond_config.toml contents, a wall clock that steps backwards or stands still, leftovers of a previous command that was interrupted or killed, two cond processes working on the same project at the same time, or an interplay between two different subcommands (run / where / gc / archive / restore / clean). Say in notes.md exactly what is needed.\n\n"
if len(sys.argv) > 3 and sys.argv[3] == "round5":
    LARGE = "Additional requirement for this round: each of your changes must consist of TWO cooperating edits at different code sites (different functions, preferably different files) such that either edit alone leaves the behaviour unchanged and only the combination breaks the property - and the break must additionally depend on a particular MIX of circumstances (for instance a group or combine task in the middle of the graph together with a cached experiment and --jobs > 1; --stop-early together with a launch failure; a dependency listed both directly and transitively; tasks in different packages with equal names). Say in notes.md exactly which mix is needed.\n\n"
if len(sys.argv) > 3 and sys.argv[3] == "round6":
    LARGE = "Additional requirement for this round: each of your changes must only manifest when a FAULT happens at one particular point, or in a particular ORDER OF EVENTS: for example a helper subprocess (git, tar) failing or printing something unusual, an OSError (ENOSPC, EACCES, EEXIST, ENOENT) from one particular filesystem call, an sqlite error, `cond` being killed (SIGKILL) between two specific steps and a later command then working on what it left behind, a signal (SIGINT/SIGTERM/SIGCHLD) arriving at one specific moment, tasks finishing in one particular completion order, or a task that modifies files while it runs. Without that fault or order the changed code must behave exactly like the original. Say in notes.md exactly which fault or order is needed. You have about 12 minutes: prefer small, sharp changes.\n\n"
if prior:
    ALREADY = "\n\nOther people have ALREADY produced seeded defects for this property based on the following ideas - yours must use clearly DIFFERENT mechanisms and different code sites where possible:\n" + "\n".join("  - " + d for _, d in prior) + "\n"
rec = [json.loads(l) for l in open("/verif/properties.jsonl") if json.loads(l)["id"] == pid][0]
print(f"""You are helping to test a verification effort for the Python project geoffxy/conductor (a Bazel-inspired task runner: COND files define tasks; `cond run //pkg:task` plans and executes them in subprocesses). You work ONLY inside your own scratch git worktree of the repository: {wt}  (a detached checkout; do not touch /repo, /verif or any other directory; no network is available).

How to run things in your worktree:
  - the CLI:   cd <some project dir> && PYTHONPATH={wt}/src /venv/bin/python -m conductor <subcommand> ...   (there is no `cond` binary on PATH)
  - the test-suite: cd {wt} && PYTHONPATH={wt}/src /venv/bin/python -m pytest -q -p no:cacheprovider --timeout=900     (about 37 tests pass, ~80 fail because they need a `cond` binary; that is the expected baseline - compare the set of passing tests before/after your change: every test that passes before must still pass)
  - a project is a directory with an (empty) `cond_config.toml` (put `disable_git = true` in it unless you need git) and COND files, see {wt}/examples and {wt}/website/docs or {wt}/README.md.

The property under study (this is the ONLY thing you are told about what is being verified):

  {rec['id']} - {rec['title']}
  {rec['statement']}
  It is meant to hold: {rec['quantifier']['text']}

{ALREADY}
{LARGE}Your task: produce TWO independent, realistic source changes ("seeded defects") to the code under {wt}/src/conductor, each of which BREAKS this property while (a) the package still imports/compiles, (b) every test of the existing suite that passed before still passes. Each change must need something SPECIFIC to manifest - a particular interleaving/completion order, a crash or signal at a particular point, a multi-step sequence of operations, an unusual input, or two cooperating sites that each look fine alone - NOT something that ordinary use (e.g. any simple `cond run`) would expose at once. Think of the kind of regression a plausible refactoring or "optimisation" would introduce. The two changes should break the property through different mechanisms / different code sites.

For each change i in (1, 2) deliver, under {wt}/_seed/<i>/ :
  - patch.diff : `git diff` of the change against the worktree's HEAD (only files under src/), applying cleanly with `git apply`
  - demo.py (or demo.sh) : a self-contained demonstration that exits 0 WITHOUT the change and exits non-zero WITH the change (it gets the source tree to use via the environment variable CONDUCTOR_SRC, e.g. it runs `PYTHONPATH=$CONDUCTOR_SRC /venv/bin/python -m conductor ...` or imports conductor after putting $CONDUCTOR_SRC first on sys.path); it must create its own temporary project(s) and clean up; it may use fake/stub processes, monkeypatching of os/subprocess/signal/time, real signals, etc. - whatever is needed to make the specific circumstances happen deterministically.
  - notes.md : which part of the property it breaks, what exactly is needed for it to manifest, why the existing tests do not notice.
NEVER use `git stash` (the stash is shared by all worktrees of the repository and other agents work in sibling worktrees): keep your change as a patch file and use `git apply` / `git apply -R`. Before you finish: verify both demos yourself (run each with the change applied and with the change reverted), verify the test-suite result, and leave the worktree's tracked files REVERTED to HEAD (git -C {wt} checkout -- . ) so that only the untracked _seed/ directory remains. In your final message give a 5-line summary per change.""")
