#!/usr/bin/env python3
"""False-alarm test: apply a behaviour-preserving refactoring in a scratch worktree and run checks; every check must exit 0.
usage: try_refactor.py <patch.diff> <name> [PROP,PROP,...]"""
import os, subprocess, sys, time
patch, name = sys.argv[1], sys.argv[2]
props = sys.argv[3].split(",") if len(sys.argv) > 3 else ["C%02d" % i for i in range(1, 21)]
wt = "/tmp/refwt-" + name
subprocess.run(["git", "-C", "/repo", "worktree", "remove", "--force", wt], capture_output=True)
subprocess.run(["git", "-C", "/repo", "worktree", "add", "--detach", wt, "HEAD"], check=True, capture_output=True)
try:
    r = subprocess.run(["git", "-C", wt, "apply", "--3way", os.path.abspath(patch)], capture_output=True, text=True)
    if r.returncode != 0:
        print("patch does not apply:", r.stderr[-300:])
        sys.exit(3)
    env = dict(os.environ, VERIF_REPO=wt, PYTHONPATH=wt + "/src", VERIF_EVIDENCE_DIR="/tmp/refactor-evidence")
    b = subprocess.run(["python3", "/verif/tools/baseline.py"], capture_output=True, text=True, env=env)
    print("baseline:", b.stdout.strip())
    bad = 0
    for p in props:
        t = time.time()
        r = subprocess.run(["/verif/check", p, "--tier", "quick"], capture_output=True, text=True, cwd="/verif", env=env)
        lines = [l for l in r.stdout.splitlines() if l.startswith(("VIOLATION", "  signature", "INCONCLUSIVE", p + " tier"))]
        print("%s exit=%d %.0fs %s" % (p, r.returncode, time.time() - t, "" if r.returncode == 0 else "  <<<<<< ALARM"))
        if r.returncode != 0:
            bad += 1
            for l in lines[:6]:
                print("    ", l[:500])
    print("refactoring %s: %d checks not clean" % (name, bad))
finally:
    subprocess.run(["git", "-C", "/repo", "worktree", "remove", "--force", wt], capture_output=True)
